#!/bin/bash
# usage: mutcheck.sh <worktree-with-mutant-applied | patch.diff> <prop> [<prop> ...]
# Runs the quick checks against a tree carrying a seeded change and prints one line per property.
# A worktree is checked through VERIF_REPO (nothing under /repo is touched); a patch file is applied
# to /repo, checked, and reverted straight afterwards.
set -u
target=$1; shift
if [ -d "$target" ]; then
  export VERIF_REPO=$target
else
  git -C /repo apply "$target" || { echo "patch does not apply"; exit 2; }
  trap 'git -C /repo apply -R "$target" 2>/dev/null; git -C /repo checkout -- . ' EXIT
fi
for p in "$@"; do
  out=$(/verif/bin/simctl check $p --tier ${TIER:-quick} 2>&1); rc=$?
  echo "== $p exit=$rc"
  echo "$out" | grep -E "^VIOLATION|^  signature|^  detail|INFRA|violations," | cut -c1-260
done
