package main

import (
	"fmt"
	"sort"
	"strings"

	"github.com/cocosip/go-dicom-codecs/jpeg/baseline"
	"github.com/cocosip/go-dicom-codecs/jpeg2000/htj2k"
	"github.com/cocosip/go-dicom/pkg/imaging/codec"

	"verif/sim/spec"
)

var intKeys = map[string]bool{"quality": true, "bitDepth": true, "predictor": true, "near": true,
	"blockWidth": true, "blockHeight": true, "numLevels": true, "rate": true, "numLayers": true, "progressionOrder": true}
var boolKeys = map[string]bool{"allowMCT": true, "usePCRDOpt": true, "appendLosslessLayer": true, "irreversible": true, "isVerbose": true}

var allKeys = []string{"quality", "bitDepth", "predictor", "near", "blockWidth", "blockHeight", "numLevels",
	"rate", "rateLevels", "numLayers", "progressionOrder", "targetRatio", "allowMCT", "usePCRDOpt",
	"appendLosslessLayer", "irreversible", "isVerbose"}

func convKV(k string, v interface{}) interface{} {
	switch {
	case intKeys[k]:
		if f, ok := v.(float64); ok {
			return int(f)
		}
	case boolKeys[k]:
		return v
	case k == "targetRatio":
		return v
	case k == "rateLevels":
		if arr, ok := v.([]interface{}); ok {
			out := make([]int, 0, len(arr))
			for _, x := range arr {
				if f, ok := x.(float64); ok {
					out = append(out, int(f))
				}
			}
			return out
		}
	}
	return v
}

func sortedKeys(m map[string]interface{}) []string {
	ks := make([]string, 0, len(m))
	for k := range m {
		ks = append(ks, k)
	}
	sort.Strings(ks)
	return ks
}

// illTyped returns unexpected dynamic types for every key.
type illTyped struct{ n int }

func (p *illTyped) GetParameter(name string) interface{} {
	switch p.n % 4 {
	case 0:
		return "not-a-number"
	case 1:
		return 3.5
	case 2:
		return []byte{1, 2, 3}
	}
	return struct{}{}
}
func (p *illTyped) SetParameter(name string, value interface{}) {}

// paramsDigest renders the observable value of a parameters object.
func paramsDigest(p codec.Parameters) string {
	if p == nil {
		return "nil"
	}
	var b strings.Builder
	for _, k := range allKeys {
		fmt.Fprintf(&b, "%s=%v;", k, p.GetParameter(k))
	}
	return b.String()
}

// buildParams materialises the parameters object for an operation.
func (e *Env) buildParams(ts string, c codec.Codec, ps spec.Params) (p codec.Parameters, shared bool) {
	switch ps.Mode {
	case "", "nil":
		return nil, false
	case "default", "base":
		if ps.Obj > 0 {
			key := fmt.Sprintf("%s/%s/%d", ts, ps.Mode, ps.Obj)
			if o, ok := e.paramObjs[key]; ok {
				return o, false
			}
			o := e.freshParams(c, ps)
			e.paramObjs[key] = o
			return o, false
		}
		return e.freshParams(c, ps), false
	case "shared-default":
		return e.sharedDefault[ts], true
	case "shared-base":
		return e.sharedBase[ts], true
	case "foreign":
		if strings.HasPrefix(ts, "20") || ts == "203" {
			return baseline.NewBaselineParameters(), false
		}
		return htj2k.NewHTJ2KParameters(), false
	case "illtyped":
		return &illTyped{n: ps.Obj}, false
	}
	return nil, false
}

func (e *Env) freshParams(c codec.Codec, ps spec.Params) codec.Parameters {
	var p codec.Parameters
	if ps.Mode == "base" {
		p = codec.NewBaseParameters()
	} else {
		p = c.GetDefaultParameters()
	}
	for _, k := range sortedKeys(ps.KV) {
		p.SetParameter(k, convKV(k, ps.KV[k]))
	}
	return p
}

// makeShared creates the shared objects for one codec (set-up, main goroutine).
func (e *Env) makeShared(ts string, c codec.Codec) {
	d := c.GetDefaultParameters()
	e.sharedDefault[ts] = d
	b := codec.NewBaseParameters()
	if d != nil {
		for _, k := range allKeys {
			if v := d.GetParameter(k); v != nil {
				b.SetParameter(k, v)
			}
		}
	}
	e.sharedBase[ts] = b
}

// paramsKV reads the current value of every known key (what the library will
// see when it is handed this object).
func paramsKV(p codec.Parameters) map[string]interface{} {
	if p == nil {
		return nil
	}
	out := map[string]interface{}{}
	for _, k := range allKeys {
		if v := p.GetParameter(k); v != nil {
			out[k] = v
		}
	}
	return out
}
