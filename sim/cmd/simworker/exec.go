package main

import (
	"fmt"
	"runtime"
	"strings"

	"github.com/cocosip/go-dicom-codecs/jpeg/baseline"
	"github.com/cocosip/go-dicom-codecs/jpeg/extended"
	jlossless "github.com/cocosip/go-dicom-codecs/jpeg/lossless"
	"github.com/cocosip/go-dicom-codecs/jpeg/lossless14sv1"
	"github.com/cocosip/go-dicom-codecs/jpeg2000"
	"github.com/cocosip/go-dicom-codecs/jpeg2000/htj2k"
	_ "github.com/cocosip/go-dicom-codecs/jpeg2000/lossless"
	_ "github.com/cocosip/go-dicom-codecs/jpeg2000/lossy"
	"github.com/cocosip/go-dicom-codecs/jpeg2000/t2"
	lslossless "github.com/cocosip/go-dicom-codecs/jpegls/lossless"
	"github.com/cocosip/go-dicom-codecs/jpegls/nearlossless"
	_ "github.com/cocosip/go-dicom-codecs/rle"
	"github.com/cocosip/go-dicom-codecs/verifrt"
	"github.com/cocosip/go-dicom/pkg/dicom/transfer"
	"github.com/cocosip/go-dicom/pkg/imaging/codec"

	"verif/sim/spec"
)

const modPrefix = "github.com/cocosip/go-dicom-codecs/"

var tsByName = map[string]*transfer.Syntax{
	"rle": transfer.RLELossless,
	"50":  transfer.JPEGBaseline8Bit, "51": transfer.JPEGProcess2_4,
	"57": transfer.JPEGLossless, "70": transfer.JPEGLosslessSV1,
	"80": transfer.JPEGLSLossless, "81": transfer.JPEGLSNearLossless,
	"90": transfer.JPEG2000Lossless, "91": transfer.JPEG2000Lossy,
	"92": transfer.JPEG2000Part2MultiComponentLosslessOnly, "93": transfer.JPEG2000Part2MultiComponent,
	"201": transfer.HTJ2KLossless, "202": transfer.HTJ2KLosslessRPCL, "203": transfer.HTJ2K,
}

// Env is the world one worker process lives in.
type Env struct {
	codecs        map[string]codec.Codec
	sharedDefault map[string]codec.Parameters
	sharedBase    map[string]codec.Parameters
	paramObjs     map[string]codec.Parameters
	encoders      map[int]*jpeg2000.Encoder
	encParams     map[int]*jpeg2000.EncodeParams
	decoders      map[int]*jpeg2000.Decoder
}

func newEnvShell() *Env {
	return &Env{codecs: map[string]codec.Codec{}, sharedDefault: map[string]codec.Parameters{},
		sharedBase: map[string]codec.Parameters{}, paramObjs: map[string]codec.Parameters{},
		encoders: map[int]*jpeg2000.Encoder{}, encParams: map[int]*jpeg2000.EncodeParams{},
		decoders: map[int]*jpeg2000.Decoder{}}
}

func newEnv() *Env {
	e := newEnvShell()
	reg := codec.GetGlobalRegistry()
	for name, ts := range tsByName {
		if c, ok := reg.GetCodec(ts); ok {
			e.codecs[name] = c
		}
	}
	return e
}

// taskCtx carries the sinks of earlier operations of the same task/history.
type taskCtx struct {
	sinks [][][]byte
	pds   []*SimPD
}

func classifyPanic(r interface{}) (text, kind string) {
	if s, ok := r.(*verifrt.Sentinel); ok {
		return fmt.Sprintf("sentinel %s site=%d val=%d", s.Kind, s.Site, s.Val), "sentinel-" + s.Kind
	}
	text = fmt.Sprint(r)
	if e, ok := r.(error); ok {
		text = e.Error()
	}
	switch {
	case strings.Contains(text, "index out of range"):
		kind = "index"
	case strings.Contains(text, "slice bounds out of range"):
		kind = "slice"
	case strings.Contains(text, "divide by zero"):
		kind = "divide"
	case strings.Contains(text, "nil pointer"):
		kind = "nil"
	case strings.Contains(text, "makeslice"):
		kind = "makeslice"
	case strings.Contains(text, "negative shift"):
		kind = "shift"
	case strings.Contains(text, "out of memory"):
		kind = "oom"
	default:
		kind = "other"
	}
	return
}

// panicSite finds the first repository frame of the panicking stack.
func panicSite() (fn, loc, stack string) {
	pcs := make([]uintptr, 64)
	n := runtime.Callers(3, pcs)
	frames := runtime.CallersFrames(pcs[:n])
	var sb strings.Builder
	for {
		f, more := frames.Next()
		if f.Function != "" {
			fmt.Fprintf(&sb, "%s %s:%d\n", f.Function, trimPath(f.File), f.Line)
			if fn == "" && strings.HasPrefix(f.Function, modPrefix) && !strings.Contains(f.Function, "/verifrt.") {
				fn = strings.TrimPrefix(f.Function, modPrefix)
				loc = fmt.Sprintf("%s:%d", trimPath(f.File), f.Line)
			}
		}
		if !more {
			break
		}
	}
	if fn == "" {
		// no repository frame: attribute to the first non-runtime frame
		for _, l := range strings.Split(sb.String(), "\n") {
			if l != "" && !strings.HasPrefix(l, "runtime.") && !strings.HasPrefix(l, "main.") {
				fn = strings.Fields(l)[0]
				break
			}
		}
	}
	return fn, loc, sb.String()
}

var scratchRoot string // set from argv; used to make paths repository-relative

func trimPath(p string) string {
	if scratchRoot != "" && strings.HasPrefix(p, scratchRoot) {
		return strings.TrimPrefix(strings.TrimPrefix(p, scratchRoot), "/")
	}
	return p
}

// guard runs f under recover and fills the panic fields of res.
func guard(res *spec.OpResult, f func() error) {
	defer func() {
		if r := recover(); r != nil {
			res.Panic, res.PanicKind = classifyPanic(r)
			res.PanicFn, res.PanicLoc, res.Stack = panicSite()
			res.Err = true
		}
	}()
	if err := f(); err != nil {
		res.Err = true
		res.ErrText = err.Error()
		if len(res.ErrText) > 300 {
			res.ErrText = res.ErrText[:300]
		}
	}
}

func materializeAll(in spec.Info, fs []spec.Frame) [][]byte {
	out := make([][]byte, len(fs))
	for i, f := range fs {
		out[i] = spec.Materialize(in, f)
	}
	return out
}

// sourceFrames resolves the input frames of an operation.
func (e *Env) sourceFrames(op *spec.Op, tc *taskCtx, pre [][]byte) [][]byte {
	if op.From >= 0 && tc != nil && op.From < len(tc.sinks) {
		// the consumer gets private copies: what one call does to its input must
		// not be mistaken for a write into a frame an earlier call delivered
		src := tc.sinks[op.From]
		sel := op.FromSel
		if len(sel) == 0 {
			for i := range src {
				sel = append(sel, i)
			}
		}
		out := make([][]byte, 0, len(sel))
		for _, i := range sel {
			if i >= 0 && i < len(src) {
				out = append(out, append([]byte(nil), src[i]...))
			}
		}
		return out
	}
	if op.Pre {
		return pre
	}
	return materializeAll(op.Info, op.Frames)
}

func snapshot(fs [][]byte) [][]byte {
	out := make([][]byte, len(fs))
	for i, f := range fs {
		out[i] = append([]byte{}, f...)
	}
	return out
}

// cutFrames applies a torn read to every frame (low-level decode ops).
func cutFrames(fs [][]byte, cut int) [][]byte {
	if cut <= 0 {
		return fs
	}
	out := make([][]byte, len(fs))
	for i, f := range fs {
		n := len(f) - cut
		if n < 0 {
			n = 0
		}
		out[i] = append([]byte(nil), f[:n]...)
	}
	return out
}

// preEncode produces the encoded input of a Pre operation (set-up time).
func (e *Env) preEncode(op *spec.Op) [][]byte {
	c := e.codecs[op.TS]
	if c == nil {
		return nil
	}
	src := newSimPD(op.Info, materializeAll(op.Info, op.Frames), nil, false)
	dst := newSimPD(op.Info, nil, nil, true)
	var p codec.Parameters
	if len(op.PreKV) > 0 {
		p = e.freshParams(c, spec.Params{Mode: "default", KV: op.PreKV})
	}
	func() {
		defer func() { recover() }()
		_ = c.Encode(src, dst, p)
	}()
	return dst.got
}

// execOp performs one operation and records everything the oracles need.
func (e *Env) execOp(op *spec.Op, tc *taskCtx, pre [][]byte, keepIn bool) (res spec.OpResult, sinkPD *SimPD) {
	res.StartStep = verifrt.CurSteps()
	verifrt.ResetOp()
	switch op.Kind {
	case "enc", "dec":
		c := e.codecs[op.TS]
		if c == nil {
			res.Err, res.ErrText = true, "harness: no codec "+op.TS
			return
		}
		frames := e.sourceFrames(op, tc, pre)
		if keepIn {
			res.In = frames
		}
		src := newSimPD(op.Info, frames, op.SrcFaults, op.Kind == "dec")
		dst := newSimPD(op.Info, nil, op.SinkFaults, op.Kind == "enc")
		dst.retains = op.SinkRetains
		params, shared := e.buildParams(op.TS, c, op.Params)
		h0 := hashFrames(frames)
		i0 := *src.info
		if !shared {
			res.ParamsBefore = paramsDigest(params)
			// always executed so that an operation takes the same steps alone and in a sched run
			// (the planner places pins by the step indices of the solo reference)
			kv := paramsKV(params)
			if keepIn {
				res.ParamsIn = kv
			}
		}
		guard(&res, func() error {
			if op.Kind == "enc" {
				return c.Encode(src, dst, params)
			}
			return c.Decode(src, dst, params)
		})
		if !shared {
			res.ParamsAfter = paramsDigest(params)
		}
		res.SrcIntact = hashFrames(frames) == h0
		res.InfoIntact = *src.info == i0
		if keepIn {
			res.In = src.servedFrames()
			res.Count = src.FrameCount()
			if src.infoSeen != nil {
				c := src.infoSeen
				res.InfoSeen = &spec.Info{W: int(c.Width), H: int(c.Height), BA: int(c.BitsAllocated), BS: int(c.BitsStored), HB: int(c.HighBit),
					SPP: int(c.SamplesPerPixel), PR: int(c.PixelRepresentation), Planar: int(c.PlanarConfiguration), PI: c.PhotometricInterpretation}
			}
		}
		res.Out = dst.got
		res.AddCalls, res.GetCalls, res.AddAfterErr = dst.addCalls, src.getCalls, dst.addAfter
		res.Fired = map[string]int{}
		for k, v := range src.fired {
			res.Fired[k] += v
		}
		for k, v := range dst.fired {
			res.Fired[k] += v
		}
		sinkPD = dst
	case "j2kenc":
		frames := e.sourceFrames(op, tc, pre)
		if keepIn {
			res.In = snapshot(frames)
		}
		enc := e.encoders[op.Obj]
		if enc == nil {
			p := buildEncodeParams(op)
			e.encParams[op.Obj] = p
			enc = jpeg2000.NewEncoder(p)
			e.encoders[op.Obj] = enc
		} else {
			// the same object serves another image of the same geometry class
			p := e.encParams[op.Obj]
			p.Width, p.Height, p.Components, p.BitDepth, p.IsSigned = op.Info.W, op.Info.H, op.Info.SPP, op.Info.BS, op.Info.PR != 0
		}
		h0 := hashFrames(frames)
		guard(&res, func() error {
			for _, f := range frames {
				out, err := enc.Encode(f)
				if err != nil {
					return err
				}
				c := make([]byte, len(out))
				copy(c, out)
				res.Out = append(res.Out, c)
			}
			return nil
		})
		res.SrcIntact, res.InfoIntact = hashFrames(frames) == h0, true
	case "j2kdec":
		frames := cutFrames(e.sourceFrames(op, tc, pre), op.Cut)
		if keepIn {
			res.In = snapshot(frames)
		}
		dec := e.decoders[op.Obj]
		if dec == nil {
			dec = newJ2KDecoder(op.Dec)
			e.decoders[op.Obj] = dec
		}
		h0 := hashFrames(frames)
		guard(&res, func() error {
			for _, f := range frames {
				if err := dec.Decode(f); err != nil {
					return err
				}
				res.Out = append(res.Out, append([]byte{}, dec.GetPixelData()...))
				res.OutMeta = append(res.OutMeta, dec.Width(), dec.Height(), dec.Components(), dec.BitDepth())
			}
			return nil
		})
		res.SrcIntact, res.InfoIntact = hashFrames(frames) == h0, true
	case "pkgenc", "pkgdec":
		frames := cutFrames(e.sourceFrames(op, tc, pre), op.Cut)
		if keepIn {
			res.In = snapshot(frames)
		}
		h0 := hashFrames(frames)
		guard(&res, func() error {
			for _, f := range frames {
				var out []byte
				var meta []int
				var err error
				if op.Kind == "pkgenc" {
					out, err = pkgEncode(op, f)
				} else {
					out, meta, err = pkgDecode(op.Target, f, op.Info)
				}
				if err != nil {
					return err
				}
				res.Out = append(res.Out, out)
				res.OutMeta = append(res.OutMeta, meta...)
			}
			return nil
		})
		res.SrcIntact, res.InfoIntact = hashFrames(frames) == h0, true
	case "selfrace":
		selfRace(op.Q)
		res.SrcIntact, res.InfoIntact = true, true
	default:
		res.Err, res.ErrText = true, "harness: unknown op kind "+op.Kind
	}
	res.Steps = verifrt.CurSteps() - res.StartStep
	res.AllocTotal, res.AllocMax, _, _ = verifrt.Ledger()
	res.SinkIntact = true
	return
}

func htFactory(w, h int, _ int) t2.BlockDecoder { return htj2k.NewHTDecoder(w, h) }

func newJ2KDecoder(d *spec.J2KDec) *jpeg2000.Decoder {
	dec := jpeg2000.NewDecoder()
	if d != nil {
		if d.HT {
			dec.SetBlockDecoderFactory(htFactory)
		}
		if d.Resilient {
			dec.SetResilient(true)
		}
		if d.Strict {
			dec.SetStrict(true)
		}
	}
	return dec
}

func buildEncodeParams(op *spec.Op) *jpeg2000.EncodeParams {
	in := op.Info
	p := jpeg2000.DefaultEncodeParams(in.W, in.H, in.SPP, in.BS, in.PR != 0)
	c := op.Enc
	if c == nil {
		return p
	}
	p.NumLevels = c.Levels
	p.Lossless = c.Lossless
	if c.CBW > 0 {
		p.CodeBlockWidth = c.CBW
	}
	if c.CBH > 0 {
		p.CodeBlockHeight = c.CBH
	}
	if c.Layers > 0 {
		p.NumLayers = c.Layers
	}
	p.ProgressionOrder = uint8(c.Prog)
	p.EnableMCT = c.MCT
	if c.Quality > 0 {
		p.Quality = c.Quality
	}
	p.TargetRatio = c.Ratio
	p.UsePCRDOpt = c.PCRD
	p.AppendLosslessLayer = c.AppendLL
	p.TileWidth, p.TileHeight = c.TileW, c.TileH
	p.PrecinctWidth, p.PrecinctHeight = c.PrecW, c.PrecH
	if c.HT {
		p.HTJ2KMode = true
		p.BlockEncoderFactory = func(w, h int) jpeg2000.BlockEncoder { return htj2k.NewHTEncoder(w, h) }
	}
	if len(c.ROI) == 5 {
		p.ROI = &jpeg2000.ROIParams{X0: c.ROI[0], Y0: c.ROI[1], Width: c.ROI[2], Height: c.ROI[3], Shift: c.ROI[4]}
	}
	if c.Binding && in.SPP >= 2 {
		n := in.SPP
		ids := make([]uint16, n)
		m := make([][]float64, n)
		offs := make([]int32, n)
		for i := 0; i < n; i++ {
			ids[i] = uint16(i)
			m[i] = make([]float64, n)
			m[i][i] = 1
			if i < len(c.BindOff) {
				offs[i] = c.BindOff[i]
			}
		}
		p.MCTBindings = []jpeg2000.MCTBindingParams{{AssocType: 2, ComponentIDs: ids, Matrix: m, Inverse: m, Offsets: offs, ElementType: 1}}
	}
	return p
}

func pkgEncode(op *spec.Op, f []byte) ([]byte, error) {
	in := op.Info
	switch op.Target {
	case "baseline":
		return baseline.Encode(f, in.W, in.H, in.SPP, op.Q)
	case "extended":
		return extended.Encode(f, in.W, in.H, in.SPP, in.BS, op.Q)
	case "lossless":
		return jlossless.Encode(f, in.W, in.H, in.SPP, in.BS, op.Pred)
	case "sv1":
		return lossless14sv1.Encode(f, in.W, in.H, in.SPP, in.BS)
	case "jpegls":
		return lslossless.Encode(f, in.W, in.H, in.SPP, in.BS)
	case "jpeglsnear":
		return nearlossless.Encode(f, in.W, in.H, in.SPP, in.BS, op.Near)
	}
	return nil, fmt.Errorf("harness: unknown pkgenc target %s", op.Target)
}

// pkgDecode calls one decode entry point on one byte string.
func pkgDecode(target string, f []byte, in spec.Info) (out []byte, meta []int, err error) {
	var w, h, c, bd int
	switch target {
	case "baseline":
		out, w, h, c, err = baseline.Decode(f)
		bd = 8
	case "extended":
		out, w, h, c, bd, err = extended.Decode(f)
	case "extended-simple":
		out, w, h, c, bd, err = extended.DecodeSimple(f)
	case "lossless":
		out, w, h, c, bd, err = jlossless.Decode(f)
	case "sv1":
		out, w, h, c, bd, err = lossless14sv1.Decode(f)
	case "jpegls":
		out, w, h, c, bd, err = lslossless.Decode(f)
	case "jpeglsnear":
		out, w, h, c, bd, _, err = nearlossless.Decode(f)
	case "j2k", "j2k-res", "j2k-strict", "j2k-ht", "j2k-ht-res":
		d := jpeg2000.NewDecoder()
		switch target {
		case "j2k-res":
			d.SetResilient(true)
		case "j2k-strict":
			d.SetStrict(true)
		case "j2k-ht":
			d.SetBlockDecoderFactory(htFactory)
		case "j2k-ht-res":
			d.SetBlockDecoderFactory(htFactory)
			d.SetResilient(true)
		}
		if err = d.Decode(f); err == nil {
			out = d.GetPixelData()
			w, h, c, bd = d.Width(), d.Height(), d.Components(), d.BitDepth()
		}
	default:
		err = fmt.Errorf("harness: unknown pkgdec target %s", target)
	}
	return out, []int{w, h, c, bd}, err
}

// selfRace is the calibration workload (DESIGN §4): an unsynchronised store to
// a harness variable followed by `burn` instrumented steps of memory traffic.
var selfRaceVar int
var selfRaceBuf [4096]int

func selfRace(burn int) {
	selfRaceVar++
	for i := 0; i < burn; i++ {
		verifrt.Step(0)
		for j := 0; j < 32; j++ {
			selfRaceBuf[(i*32+j)%len(selfRaceBuf)] += i
		}
	}
	verifrt.Step(0)
}
