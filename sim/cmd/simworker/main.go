// simworker is the process that actually runs repository code. It is rebuilt
// for every check from an instrumented scratch copy of /repo's working tree.
//
//	simworker run  <run.json>  <result.json> <scratch-root>
//	simworker disk <cfg.json>  <result.json> <scratch-root>
//	simworker seam <cfg.json>  <result.json> <scratch-root>
//	simworker confirm <case.json> <result.json> <scratch-root>
package main

import (
	"encoding/json"
	"fmt"
	"os"
	"runtime"
	"runtime/debug"
	"sync"

	"github.com/cocosip/go-dicom-codecs/verifrt"

	"verif/sim/spec"
)

func die(code int, format string, a ...interface{}) {
	fmt.Fprintf(os.Stderr, "simworker: "+format+"\n", a...)
	os.Exit(code)
}

func readJSON(path string, v interface{}) {
	b, err := os.ReadFile(path)
	if err != nil {
		die(3, "read %s: %v", path, err)
	}
	if err := json.Unmarshal(b, v); err != nil {
		die(3, "parse %s: %v", path, err)
	}
}

func writeJSON(path string, v interface{}) {
	b, err := json.Marshal(v)
	if err != nil {
		die(3, "marshal: %v", err)
	}
	tmp := path + ".tmp"
	if err := os.WriteFile(tmp, b, 0o644); err != nil {
		die(3, "write %s: %v", tmp, err)
	}
	if err := os.Rename(tmp, path); err != nil {
		die(3, "rename: %v", err)
	}
}

func main() {
	if len(os.Args) < 4 {
		die(3, "usage: simworker <mode> <in.json> <out.json> [scratch-root]")
	}
	if len(os.Args) > 4 {
		scratchRoot = os.Args[4]
	}
	debug.SetTraceback("all")
	switch os.Args[1] {
	case "run":
		var run spec.Run
		readJSON(os.Args[2], &run)
		if run.Gomaxprocs > 0 {
			runtime.GOMAXPROCS(run.Gomaxprocs)
		}
		verifrt.SortMaps = run.SortMaps
		var res spec.Result
		switch run.Mode {
		case "solo", "history":
			res = runSeq(&run)
		case "sched":
			res = runSched(&run)
		default:
			die(3, "unknown run mode %q", run.Mode)
		}
		writeJSON(os.Args[3], &res)
	case "disk":
		diskMain(os.Args[2], os.Args[3])
	case "seam":
		seamMain(os.Args[2], os.Args[3])
	case "confirm":
		confirmMain(os.Args[2], os.Args[3])
	case "hello":
		// build self-check: the hooks are compiled in and tick
		verifrt.SoloBegin()
		e := newEnv()
		_ = e
		fmt.Printf("{\"enabled\":%v,\"sites\":%d,\"codecs\":%d}\n", verifrt.Enabled, verifrt.NumSites, len(e.codecs))
	default:
		die(3, "unknown mode %q", os.Args[1])
	}
}

func setCaps(run *spec.Run) {
	if run.AllocCap > 0 {
		verifrt.AllocCap = run.AllocCap
		verifrt.AllocTotalCap = 8 * run.AllocCap
	}
}

// runSeq executes tasks[0] (and any further tasks, one after another) on the
// calling goroutine: modes solo and history.
func runSeq(run *spec.Run) (res spec.Result) {
	env := newEnv()
	for _, t := range run.Tasks {
		for i := range t.Ops {
			if ts := t.Ops[i].TS; ts != "" && env.sharedDefault[ts] == nil && env.codecs[ts] != nil {
				env.makeShared(ts, env.codecs[ts])
			}
		}
	}
	pre := map[[2]int][][]byte{}
	for ti, t := range run.Tasks {
		for oi := range t.Ops {
			if t.Ops[oi].Pre {
				pre[[2]int{ti, oi}] = env.preEncode(&t.Ops[oi])
			}
		}
	}
	if run.WantHist {
		verifrt.EnableHist()
	}
	setCaps(run)
	verifrt.SoloBegin()
	res.Tasks = make([][]spec.OpResult, len(run.Tasks))
	var sinks []*SimPD
	var owners [][2]int
	for ti, t := range run.Tasks {
		tc := &taskCtx{}
		for oi := range t.Ops {
			if run.StepCap > 0 {
				verifrt.StepCap = verifrt.Total + run.StepCap
			}
			r, pd := env.execOp(&t.Ops[oi], tc, pre[[2]int{ti, oi}], true)
			verifrt.StepCap = ^uint64(0)
			tc.sinks = append(tc.sinks, r.Out)
			res.Tasks[ti] = append(res.Tasks[ti], r)
			if pd != nil && pd.retains {
				sinks = append(sinks, pd)
				owners = append(owners, [2]int{ti, oi})
			}
		}
	}
	verifrt.Cur = nil
	for i, pd := range sinks {
		if !pd.retainedIntact() {
			res.Tasks[owners[i][0]][owners[i][1]].SinkIntact = false
		}
	}
	res.TotalSteps = verifrt.Total
	if run.WantHist {
		for s, h := range verifrt.Hist {
			if h.Count > 0 {
				res.Hist = append(res.Hist, spec.SiteStat{Site: uint32(s), Count: h.Count, First: h.First, Last: h.Last})
			}
		}
	}
	return
}

// runSched executes the tasks as concurrent clients under the serial scheduler
// (DESIGN §3.3): real goroutines, exactly one running at a time, handed the
// baton through raw pipe syscalls that the race detector does not model.
func runSched(run *spec.Run) (res spec.Result) {
	env := newEnv()
	for name, c := range env.codecs {
		env.makeShared(name, c)
	}
	pre := map[[2]int][][]byte{}
	for ti, t := range run.Tasks {
		for oi := range t.Ops {
			if t.Ops[oi].Pre {
				pre[[2]int{ti, oi}] = env.preEncode(&t.Ops[oi])
			}
		}
	}
	res.SharedBefore, res.SharedAfter = map[string]string{}, map[string]string{}
	for name := range env.codecs {
		res.SharedBefore[name+"/default"] = paramsDigest(env.sharedDefault[name])
		res.SharedBefore[name+"/base"] = paramsDigest(env.sharedBase[name])
	}
	// Per-task private worlds for low-level objects: object slots are keyed by
	// (task, slot) so clients never share an encoder/decoder object.
	envs := make([]*Env, len(run.Tasks))
	for i := range envs {
		envs[i] = cloneEnvForTask(env)
	}
	setCaps(run)
	if run.StepCap > 0 {
		verifrt.StepCap = run.StepCap
	}
	segs := make([]verifrt.Seg, len(run.Schedule))
	for i, s := range run.Schedule {
		segs[i] = verifrt.Seg{Task: s.Task, Until: s.Until}
	}
	verifrt.InitSched(segs)
	states := make([]*verifrt.TaskState, len(run.Tasks))
	for i := range run.Tasks {
		states[i] = verifrt.NewTask(i)
	}
	res.Tasks = make([][]spec.OpResult, len(run.Tasks))
	var wg sync.WaitGroup
	for ti := range run.Tasks {
		wg.Add(1)
		go func(ti int) {
			defer wg.Done()
			st := states[ti]
			verifrt.TaskBegin(st)
			tc := &taskCtx{}
			out := make([]spec.OpResult, 0, len(run.Tasks[ti].Ops))
			for oi := range run.Tasks[ti].Ops {
				r, _ := envs[ti].execOp(&run.Tasks[ti].Ops[oi], tc, pre[[2]int{ti, oi}], false)
				tc.sinks = append(tc.sinks, r.Out)
				out = append(out, r)
			}
			res.Tasks[ti] = out
			verifrt.TaskEnd(st)
		}(ti)
	}
	verifrt.RunSched()
	verifrt.ReleaseAll()
	wg.Wait()
	for name := range env.codecs {
		res.SharedAfter[name+"/default"] = paramsDigest(env.sharedDefault[name])
		res.SharedAfter[name+"/base"] = paramsDigest(env.sharedBase[name])
	}
	for _, s := range verifrt.Switches {
		res.Switches = append(res.Switches, spec.Sw{From: s.From, At: s.AtStep, Site: s.Site, To: s.To})
	}
	res.TotalSteps = verifrt.Total
	res.BlockedYields = verifrt.BlockedYields
	return
}

// cloneEnvForTask shares the registry codecs and the shared parameters objects
// (that sharing is the point of mode sched) but gives the task private slots
// for long-lived low-level objects.
func cloneEnvForTask(env *Env) *Env {
	e := newEnvShell()
	e.codecs, e.sharedDefault, e.sharedBase = env.codecs, env.sharedDefault, env.sharedBase
	return e
}
