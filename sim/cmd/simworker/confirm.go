package main

import (
	"runtime"
	"sync/atomic"
	"syscall"
	"time"

	"verif/sim/spec"
)

// confirmMain is C09 stage 2 (DESIGN §5 C09): one case, alone, in a build with
// the hooks compiled out, GOMAXPROCS=1, an address-space limit as kill switch, a
// 10 ms heap sampler that forces a GC before believing a sample above the
// budget (so only live heap counts), and getrusage for CPU time.
func confirmMain(inPath, outPath string) {
	var c spec.DiskCase
	readJSON(inPath, &c)
	runtime.GOMAXPROCS(1)
	var S uint64
	if c.Entry == "codec:rle" {
		S = uint64(c.Info.W) * uint64(c.Info.H) * uint64(c.Info.SPP)
	} else if w, h, comps, _, ok := declared(c.Data); ok {
		S = w * h * comps
	}
	B := uint64(512<<20) + 64*S
	lim := syscall.Rlimit{Cur: B + (3 << 30), Max: B + (3 << 30)}
	_ = syscall.Setrlimit(syscall.RLIMIT_AS, &lim)
	env := newEnv()
	var res spec.ConfirmResult
	var stop int32
	done := make(chan struct{})
	go func() {
		defer close(done)
		var ms runtime.MemStats
		for atomic.LoadInt32(&stop) == 0 {
			runtime.ReadMemStats(&ms)
			res.Samples++
			if ms.HeapAlloc > res.PeakHeap {
				res.PeakHeap = ms.HeapAlloc
			}
			if ms.HeapAlloc > B {
				runtime.GC()
				runtime.ReadMemStats(&ms)
				if ms.HeapAlloc > res.PeakLive {
					res.PeakLive = ms.HeapAlloc
				}
			} else if ms.HeapAlloc > res.PeakLive && ms.HeapAlloc <= B {
				// below the budget a plain sample is a sound lower bound of nothing we need; keep it for the record
			}
			time.Sleep(10 * time.Millisecond)
		}
	}()
	var ru0, ru1 syscall.Rusage
	var ms0, ms1 runtime.MemStats
	runtime.ReadMemStats(&ms0)
	syscall.Getrusage(syscall.RUSAGE_SELF, &ru0)
	t0 := time.Now()
	var or spec.OpResult
	guard(&or, func() error { return runEntry(env, c.Entry, c.Info, c.Data) })
	res.WallS = time.Since(t0).Seconds()
	syscall.Getrusage(syscall.RUSAGE_SELF, &ru1)
	runtime.ReadMemStats(&ms1)
	res.HeapSys, res.TotalAlloc = ms1.HeapSys, ms1.TotalAlloc-ms0.TotalAlloc
	atomic.StoreInt32(&stop, 1)
	<-done
	cpu := func(r syscall.Rusage) float64 {
		return float64(r.Utime.Sec) + float64(r.Utime.Usec)/1e6 + float64(r.Stime.Sec) + float64(r.Stime.Usec)/1e6
	}
	res.CPUSeconds = cpu(ru1) - cpu(ru0)
	switch {
	case or.Panic != "":
		res.Outcome, res.Panic = "panic", or.Panic
	case or.Err:
		res.Outcome = "error"
	default:
		res.Outcome = "ok"
	}
	writeJSON(outPath, &res)
}
