package main

import (
	"crypto/sha256"
	"encoding/binary"
	"fmt"
	"os"
	"path/filepath"
	"runtime/metrics"
	"sort"
	"strings"
	"syscall"
	"time"
	"unsafe"

	"github.com/cocosip/go-dicom-codecs/verifrt"

	"verif/sim/spec"
)

// ---------------------------------------------------------------- independent header parser

// declared parses the first frame header (SOFn / SOF55 / SIZ) independently of
// the library and returns what it declares. ok=false: nothing declared.
func declared(d []byte) (w, h, comps, tiles uint64, ok bool) {
	if len(d) >= 4 && d[0] == 0xFF && d[1] == 0x4F { // JPEG 2000 SOC
		i := 2
		for i+4 <= len(d) {
			if d[i] != 0xFF {
				return
			}
			m := d[i+1]
			l := int(binary.BigEndian.Uint16(d[i+2:]))
			if m == 0x51 { // SIZ
				if i+4+36 > len(d) {
					return
				}
				p := d[i+4:]
				xs, ys := uint64(binary.BigEndian.Uint32(p[2:])), uint64(binary.BigEndian.Uint32(p[6:]))
				xo, yo := uint64(binary.BigEndian.Uint32(p[10:])), uint64(binary.BigEndian.Uint32(p[14:]))
				xt, yt := uint64(binary.BigEndian.Uint32(p[18:])), uint64(binary.BigEndian.Uint32(p[22:]))
				xto, yto := uint64(binary.BigEndian.Uint32(p[26:])), uint64(binary.BigEndian.Uint32(p[30:]))
				c := uint64(binary.BigEndian.Uint16(p[34:]))
				if xs < xo || ys < yo {
					return xs, ys, c, 1 << 40, true
				}
				w, h, comps, ok = xs-xo, ys-yo, c, true
				tiles = 1 << 40
				if xt > 0 && yt > 0 && xs >= xto && ys >= yto {
					tiles = ((xs - xto + xt - 1) / xt) * ((ys - yto + yt - 1) / yt)
				}
				return
			}
			if m == 0x90 || m == 0x93 || m == 0xD9 { // SOT/SOD/EOC before SIZ
				return
			}
			if l < 2 {
				return
			}
			i += 2 + l
		}
		return
	}
	if len(d) >= 4 && d[0] == 0xFF && d[1] == 0xD8 { // JPEG / JPEG-LS SOI
		i := 2
		for i+4 <= len(d) {
			if d[i] != 0xFF {
				i++
				continue
			}
			m := d[i+1]
			if m == 0xFF {
				i++
				continue
			}
			if m == 0x00 || m == 0x01 || (m >= 0xD0 && m <= 0xD8) {
				i += 2
				continue
			}
			if m == 0xD9 || m == 0xDA {
				return
			}
			l := int(binary.BigEndian.Uint16(d[i+2:]))
			isSOF := (m >= 0xC0 && m <= 0xCF && m != 0xC4 && m != 0xC8 && m != 0xCC) || m == 0xF7
			if isSOF {
				if i+4+6 > len(d) {
					return
				}
				p := d[i+4:]
				return uint64(binary.BigEndian.Uint16(p[3:])), uint64(binary.BigEndian.Uint16(p[1:])), uint64(p[5]), 1, true
			}
			if l < 2 {
				return
			}
			i += 2 + l
		}
	}
	return
}

// ---------------------------------------------------------------- corpus

type corpusItem struct {
	geo    int
	name   string
	family string // jpeg | j2k | rle
	info   spec.Info
	data   []byte
	hdrEnd int // first entropy-coded byte (marker segments end here)
	ts     string
	ht     bool
}

func headerEnd(family string, d []byte) int {
	switch family {
	case "rle":
		if len(d) < 64 {
			return len(d)
		}
		return 64
	case "j2k":
		for i := 0; i+1 < len(d); i++ {
			if d[i] == 0xFF && d[i+1] == 0x93 {
				return i + 2
			}
		}
	case "jpeg":
		for i := 0; i+3 < len(d); i++ {
			if d[i] == 0xFF && d[i+1] == 0xDA {
				l := int(binary.BigEndian.Uint16(d[i+2:]))
				if i+2+l <= len(d) {
					return i + 2 + l
				}
			}
		}
	}
	return len(d)
}

// headerSegments lists the marker segments with a length field inside the header of a JPEG-
// or JPEG 2000-family stream: (offset of the 0xFF, total length including the marker).
func headerSegments(family string, d []byte, hdrEnd int) [][2]int {
	if family != "jpeg" && family != "j2k" {
		return nil
	}
	var out [][2]int
	for i := 2; i+4 <= hdrEnd && i+4 <= len(d); {
		if d[i] != 0xFF {
			break
		}
		m := d[i+1]
		if m == 0xD8 || m == 0x4F || m == 0x93 || m == 0xD9 || m == 0x01 || (m >= 0xD0 && m <= 0xD7) || m == 0xFF {
			i += 2
			continue
		}
		l := int(binary.BigEndian.Uint16(d[i+2:]))
		if l < 2 || i+2+l > len(d) {
			break
		}
		out = append(out, [2]int{i, 2 + l})
		i += 2 + l
	}
	return out
}

func buildCorpus(env *Env, cfg *spec.DiskCfg) []corpusItem {
	var out []corpusItem
	curGeo := 0
	r := spec.NewRng(0xC0DEC) // corpus content is fixed, not seed dependent: enumeration must be reproducible by index
	add := func(name, family, ts string, in spec.Info, data []byte, ht bool) {
		if len(data) == 0 {
			return
		}
		out = append(out, corpusItem{geo: curGeo, name: name, family: family, info: in, data: data, hdrEnd: headerEnd(family, data), ts: ts, ht: ht})
	}
	type geo struct{ w, h, spp int }
	geos := []geo{{9, 7, 1}}
	if cfg.Corpus == "full" {
		geos = []geo{{9, 7, 1}, {9, 7, 3}, {1, 1, 1}, {1, 13, 1}, {13, 1, 1}, {15, 17, 1}, {16, 16, 1}, {17, 8, 3}}
	} else {
		geos = append(geos, geo{8, 9, 3}, geo{15, 17, 1}, geo{1, 5, 1})
	}
	mk := func(g geo, ba, bs int) (spec.Info, []byte) {
		in := spec.Info{W: g.w, H: g.h, SPP: g.spp, BA: ba, BS: bs, HB: bs - 1, PI: "MONOCHROME2"}
		if g.spp == 3 {
			in.PI = "RGB"
		}
		return in, spec.Materialize(in, spec.Frame{Gen: "noise", Seed: r.U64() >> 1})
	}
	enc := func(name string, op spec.Op) []byte {
		var res spec.OpResult
		var outb []byte
		guard(&res, func() error {
			b, err := pkgEncode(&op, spec.Materialize(op.Info, op.Frames[0]))
			outb = b
			return err
		})
		_ = name
		return outb
	}
	for gi, g := range geos {
		curGeo = gi
		tag := fmt.Sprintf("%dx%dx%d", g.w, g.h, g.spp)
		// JPEG family through the package-level encoders
		in8, _ := mk(g, 8, 8)
		in12, _ := mk(g, 16, 12)
		in16, _ := mk(g, 16, 16)
		fr := []spec.Frame{{Gen: "noise", Seed: uint64(gi + 1)}}
		add("baseline-"+tag, "jpeg", "50", in8, enc("", spec.Op{Target: "baseline", Info: in8, Frames: fr, Q: 75}), false)
		add("extended8-"+tag, "jpeg", "51", in8, enc("", spec.Op{Target: "extended", Info: in8, Frames: fr, Q: 90}), false)
		add("extended12-"+tag, "jpeg", "51", in12, enc("", spec.Op{Target: "extended", Info: in12, Frames: fr, Q: 90}), false)
		add("lossless8p1-"+tag, "jpeg", "57", in8, enc("", spec.Op{Target: "lossless", Info: in8, Frames: fr, Pred: 1}), false)
		add("lossless16p4-"+tag, "jpeg", "57", in16, enc("", spec.Op{Target: "lossless", Info: in16, Frames: fr, Pred: 4}), false)
		add("sv1-12-"+tag, "jpeg", "70", in12, enc("", spec.Op{Target: "sv1", Info: in12, Frames: fr}), false)
		add("jpegls8-"+tag, "jpeg", "80", in8, enc("", spec.Op{Target: "jpegls", Info: in8, Frames: fr}), false)
		add("jpegls16-"+tag, "jpeg", "80", in16, enc("", spec.Op{Target: "jpegls", Info: in16, Frames: fr}), false)
		add("jpeglsnear3-"+tag, "jpeg", "81", in8, enc("", spec.Op{Target: "jpeglsnear", Info: in8, Frames: fr, Near: 3}), false)
		// flat content: long runs / run mode / single-symbol entropy tables, tiny scans
		flat := []spec.Frame{{Gen: "zero"}}
		sparse := []spec.Frame{{Gen: "sparse", Seed: uint64(gi + 7)}}
		add("jpegls8-flat-"+tag, "jpeg", "80", in8, enc("", spec.Op{Target: "jpegls", Info: in8, Frames: flat}), false)
		add("jpegls8-sparse-"+tag, "jpeg", "80", in8, enc("", spec.Op{Target: "jpegls", Info: in8, Frames: sparse}), false)
		add("jpeglsnear3-flat-"+tag, "jpeg", "81", in8, enc("", spec.Op{Target: "jpeglsnear", Info: in8, Frames: flat, Near: 3}), false)
		add("lossless8p1-flat-"+tag, "jpeg", "57", in8, enc("", spec.Op{Target: "lossless", Info: in8, Frames: flat, Pred: 1}), false)
		add("sv1-12-sparse-"+tag, "jpeg", "70", in12, enc("", spec.Op{Target: "sv1", Info: in12, Frames: sparse}), false)
		add("baseline-flat-"+tag, "jpeg", "50", in8, enc("", spec.Op{Target: "baseline", Info: in8, Frames: flat, Q: 75}), false)
		if cfg.Corpus == "full" {
			add("sv1-8-"+tag, "jpeg", "70", in8, enc("", spec.Op{Target: "sv1", Info: in8, Frames: fr}), false)
			add("lossless12p7-"+tag, "jpeg", "57", in12, enc("", spec.Op{Target: "lossless", Info: in12, Frames: fr, Pred: 7}), false)
			add("jpeglsnear0-12-"+tag, "jpeg", "81", in12, enc("", spec.Op{Target: "jpeglsnear", Info: in12, Frames: fr, Near: 0}), false)
			add("baselineq20-"+tag, "jpeg", "50", in8, enc("", spec.Op{Target: "baseline", Info: in8, Frames: fr, Q: 20}), false)
		}
		// JPEG 2000 family through encoder objects
		j2k := func(name string, in spec.Info, c spec.J2KEnc) {
			op := spec.Op{Kind: "j2kenc", Info: in, Frames: fr, From: -1, Obj: 1000 + len(out), Enc: &c}
			e := newEnvShell()
			res, _ := e.execOp(&op, nil, nil, false)
			if len(res.Out) == 1 {
				add(name+"-"+tag, "j2k", "90", in, res.Out[0], c.HT)
			}
		}
		j2k("j2k-ll-l1", in8, spec.J2KEnc{Levels: 1, Lossless: true, MCT: g.spp == 3, Layers: 1})
		j2k("j2k-lossy-l2", in12, spec.J2KEnc{Levels: 2, Lossless: false, MCT: g.spp == 3, Layers: 2, Quality: 60})
		j2k("htj2k-ll-l1", in8, spec.J2KEnc{Levels: 1, Lossless: true, Layers: 1, HT: true})
		// precinct-partitioned stream: many precincts per resolution (packet iteration, per-precinct state)
		j2k("j2k-precincts", in8, spec.J2KEnc{Levels: 2, Lossless: true, Layers: 2, MCT: g.spp == 3, PrecW: 4, PrecH: 4, CBW: 4, CBH: 4})
		if cfg.Corpus == "full" {
			j2k("j2k-ll-l0-16", in16, spec.J2KEnc{Levels: 0, Lossless: true, Layers: 1})
			j2k("j2k-tiles", in8, spec.J2KEnc{Levels: 1, Lossless: true, Layers: 1, TileW: 8, TileH: 8})
			j2k("j2k-prog3", in8, spec.J2KEnc{Levels: 2, Lossless: true, Layers: 2, Prog: 3, CBW: 16, CBH: 16})
			j2k("htj2k-lossy", in12, spec.J2KEnc{Levels: 2, Lossless: false, Layers: 1, HT: true, Quality: 70})
			if g.spp == 1 && g.w >= 8 && g.h >= 7 {
				j2k("j2k-roi", in8, spec.J2KEnc{Levels: 1, Lossless: true, Layers: 1, ROI: []int{1, 1, 4, 3, 3}})
			}
			if g.spp == 3 {
				j2k("j2k-binding", in8, spec.J2KEnc{Levels: 0, Lossless: true, Layers: 1, MCT: true, Binding: true, BindOff: []int32{5, -5, 3}})
			}
		}
		// registry codecs (their streams carry extra markers: COM, TLM, CAP ...)
		viaCodec := func(ts string, in spec.Info) {
			c := env.codecs[ts]
			if c == nil {
				return
			}
			src := newSimPD(in, [][]byte{spec.Materialize(in, fr[0])}, nil, false)
			dst := newSimPD(in, nil, nil, true)
			func() {
				defer func() { recover() }()
				_ = c.Encode(src, dst, nil)
			}()
			if len(dst.got) == 1 {
				fam := "j2k"
				if ts == "rle" {
					fam = "rle"
				}
				add("codec"+ts+"-"+tag, fam, ts, in, dst.got[0], ts == "201" || ts == "202" || ts == "203")
			}
		}
		viaCodec("rle", in8)
		viaCodec("rle", in16)
		viaCodec("90", in8)
		viaCodec("201", in8)
		if cfg.Corpus == "full" {
			viaCodec("91", in12)
			viaCodec("93", in8)
			viaCodec("202", in16)
			viaCodec("203", in8)
			in8p := in8
			in8p.Planar = 1
			if g.spp == 3 {
				viaCodec("rle", in8p)
			}
		}
	}
	// third-party code-streams (thorough only; sampled faults only because they are large)
	if cfg.Corpus == "full" && cfg.TestData != "" {
		ms, _ := filepath.Glob(filepath.Join(cfg.TestData, "htj2k", "interop", "*", "*.j2c"))
		sort.Strings(ms)
		for _, m := range ms {
			d, err := os.ReadFile(m)
			if err != nil || len(d) > 40000 {
				continue
			}
			w, h, c, _, ok := declared(d)
			if !ok {
				continue
			}
			in := spec.Info{W: int(w), H: int(h), SPP: int(c), BA: 8, BS: 8, HB: 7}
			if strings.Contains(m, "16_") {
				in.BA, in.BS, in.HB = 16, 16, 15
			}
			out = append(out, corpusItem{name: "3p-" + filepath.Base(filepath.Dir(m)) + "/" + filepath.Base(m), family: "j2k", info: in, data: d,
				hdrEnd: headerEnd("j2k", d), ts: "201", ht: true})
		}
	}
	return out
}

// ---------------------------------------------------------------- entry points

// entriesFor lists the decode entry points a stream of this family can be pointed at.
func entriesFor(it *corpusItem, cross bool) []string {
	switch it.family {
	case "jpeg":
		es := []string{"pkg:baseline", "pkg:extended", "pkg:lossless", "pkg:sv1", "pkg:jpegls", "pkg:jpeglsnear"}
		own := map[string][]string{
			"50": {"pkg:baseline", "pkg:extended", "codec:50", "codec:51", "pkg:extended-simple"},
			"51": {"pkg:extended", "pkg:extended-simple", "pkg:baseline", "codec:51"},
			"57": {"pkg:lossless", "pkg:sv1", "codec:57", "codec:70"},
			"70": {"pkg:sv1", "pkg:lossless", "codec:70", "codec:57"},
			"80": {"pkg:jpegls", "pkg:jpeglsnear", "codec:80", "codec:81"},
			"81": {"pkg:jpeglsnear", "pkg:jpegls", "codec:81", "codec:80"},
		}
		if !cross {
			return own[it.ts]
		}
		return es
	case "j2k":
		if it.ht {
			return []string{"pkg:j2k-ht", "pkg:j2k-ht-res", "codec:201", "codec:203", "pkg:j2k"}
		}
		return []string{"pkg:j2k", "pkg:j2k-res", "pkg:j2k-strict", "codec:90", "codec:91", "codec:92", "codec:93"}
	case "rle":
		return []string{"codec:rle"}
	}
	return nil
}

// runEntry points one entry at one byte string.
func runEntry(env *Env, entry string, in spec.Info, data []byte) error {
	switch {
	case strings.HasPrefix(entry, "pkg:"):
		_, _, err := pkgDecode(entry[4:], data, in)
		return err
	case strings.HasPrefix(entry, "codec:"):
		c := env.codecs[entry[6:]]
		if c == nil {
			return fmt.Errorf("harness: no codec %s", entry)
		}
		src := newSimPD(in, [][]byte{data}, nil, true)
		dst := newSimPD(in, nil, nil, false)
		return c.Decode(src, dst, nil)
	}
	return fmt.Errorf("harness: unknown entry %s", entry)
}

// ---------------------------------------------------------------- storage fault model

func applyFault(r *spec.Rng, d []byte, other []byte) ([]byte, string) {
	if len(d) == 0 {
		return d, "noop"
	}
	o := r.Intn(len(d))
	switch r.Intn(11) {
	case 0:
		return append([]byte(nil), d[:o]...), fmt.Sprintf("truncate(%d)", o)
	case 1:
		out := append([]byte(nil), d[:o]...)
		fill := byte([]int{0, 0xFF}[r.Intn(2)])
		for len(out) < len(d) {
			out = append(out, fill)
		}
		return out, fmt.Sprintf("torn(%d,%#x)", o, fill)
	case 2:
		out := append([]byte(nil), d...)
		b := uint(r.Intn(8))
		out[o] ^= 1 << b
		return out, fmt.Sprintf("flip(%d,%d)", o, b)
	case 3:
		out := append([]byte(nil), d...)
		v := byte(r.Intn(256))
		out[o] = v
		return out, fmt.Sprintf("poke(%d,%#x)", o, v)
	case 4:
		out := append([]byte(nil), d...)
		l := 1 + r.Intn(32)
		fill := byte([]int{0, 0, 0xFF}[r.Intn(3)])
		for i := o; i < o+l && i < len(out); i++ {
			out[i] = fill
		}
		if fill != 0 {
			return out, fmt.Sprintf("erased-sector(%d,%d)", o, l)
		}
		return out, fmt.Sprintf("zero-sector(%d,%d)", o, l)
	case 5:
		l := 1 + r.Intn(16)
		if o+l > len(d) {
			l = len(d) - o
		}
		out := append(append([]byte(nil), d[:o]...), d[o+l:]...)
		return out, fmt.Sprintf("drop(%d,%d)", o, l)
	case 6:
		l := 1 + r.Intn(16)
		if o+l > len(d) {
			l = len(d) - o
		}
		out := append(append(append([]byte(nil), d[:o+l]...), d[o:o+l]...), d[o+l:]...)
		return out, fmt.Sprintf("dup(%d,%d)", o, l)
	case 7:
		out := append([]byte(nil), d...)
		o2 := r.Intn(len(d))
		l := 1 + r.Intn(8)
		for i := 0; i < l && o+i < len(out) && o2+i < len(out); i++ {
			out[o+i], out[o2+i] = out[o2+i], out[o+i]
		}
		return out, fmt.Sprintf("swap(%d,%d,%d)", o, o2, l)
	case 8:
		if len(other) > 0 {
			o2 := r.Intn(len(other))
			out := append(append([]byte(nil), d[:o]...), other[o2:]...)
			return out, fmt.Sprintf("splice(%d,%d)", o, o2)
		}
		fallthrough
	case 9:
		// valid prefix + PRNG bytes
		keep := o
		out := append([]byte(nil), d[:keep]...)
		n := r.Intn(64)
		for i := 0; i < n; i++ {
			out = append(out, byte(r.U64()))
		}
		return out, fmt.Sprintf("garbage(%d,+%d)", keep, n)
	default:
		// refragment: the frame is cut in fragments and one is lost / duplicated / moved
		nf := 2 + r.Intn(4)
		sz := len(d)/nf + 1
		var frags [][]byte
		for i := 0; i < len(d); i += sz {
			e := i + sz
			if e > len(d) {
				e = len(d)
			}
			frags = append(frags, d[i:e])
		}
		k := r.Intn(len(frags))
		var out []byte
		mode := r.Intn(3)
		for i, f := range frags {
			if i == k && mode == 0 {
				continue
			}
			out = append(out, f...)
			if i == k && mode == 1 {
				out = append(out, f...)
			}
		}
		if mode == 2 && len(frags) > 1 {
			out = out[:0]
			j := (k + 1) % len(frags)
			frags[k], frags[j] = frags[j], frags[k]
			for _, f := range frags {
				out = append(out, f...)
			}
		}
		return out, fmt.Sprintf("refragment(%d,%d,%d)", nf, k, mode)
	}
}

// ---------------------------------------------------------------- the batch

type diskState struct {
	pl      plan
	cfg     *spec.DiskCfg
	env     *Env
	res     *spec.DiskResult
	journal []byte
	find    map[string]*spec.DiskFinding
	seen    map[[8]byte]struct{}
	idx     uint64
	t0      time.Time
	// exhausted counts cases that ran into the step cap; after a dozen of them the
	// cap is divided by capDiv for the rest of the shard (a tree with a runaway loop
	// on a common path would otherwise spend the whole budget spinning).
	exhausted int
	capDiv    uint64
}

func mmapJournal(path string) []byte {
	f, err := os.OpenFile(path, os.O_RDWR|os.O_CREATE, 0o644)
	if err != nil {
		die(3, "journal: %v", err)
	}
	defer f.Close()
	f.Truncate(16)
	b, err := syscall.Mmap(int(f.Fd()), 0, 16, syscall.PROT_READ|syscall.PROT_WRITE, syscall.MAP_SHARED)
	if err != nil {
		die(3, "mmap journal: %v", err)
	}
	return b
}

func (s *diskState) mine(idx uint64) bool {
	if s.cfg.Only >= 0 {
		return idx == uint64(s.cfg.Only)
	}
	return idx >= s.cfg.StartAt && int(idx%uint64(s.cfg.Shards)) == s.cfg.Shard
}

const (
	domainMaxLen     = 64 << 10
	domainMaxSamples = 1 << 22
	railMaxTiles     = 4096
)

// plan is the enumeration budget of a tier (DESIGN §5 C08/C09 "Cost").
type plan struct {
	railSamples uint64 // C08 guard rail on the declared sample count
	pokeVals    []int  // values tried for every marker-segment byte
	pokeValsHT  []int  // same for HTJ2K streams (a decode costs ~50 ms: VLC tables are rebuilt per code-block)
	nEntries    int    // entry points per stream in the enumerated part
	nEntriesHT  int
	maxHT       int // HTJ2K corpus members enumerated
	truncStride int
	// richGeos: corpus members of the first richGeos geometries get pokeVals, the rest fewVals
	richGeos int
}

func allVals() []int {
	v := make([]int, 256)
	for i := range v {
		v[i] = i
	}
	return v
}

var allValsCached = allVals()

var fewVals = []int{0x00, 0x01, 0x02, 0x03, 0x04, 0x07, 0x08, 0x0F, 0x10, 0x11, 0x1F, 0x20, 0x3F, 0x40, 0x7F, 0x80, 0xC0, 0xFE, 0xFF}

// midVals: the boundary values plus every sixth value (48 values).
func midVals() []int {
	seen := map[int]bool{}
	var out []int
	for _, v := range fewVals {
		if !seen[v] {
			seen[v] = true
			out = append(out, v)
		}
	}
	// marker codes a stray byte can turn a marker into (SOI, EOI, SOS, SOFn, DHT, DQT, DRI, SOF55, LSE, J2K SOC..EPH)
	for _, v := range []int{0xD8, 0xD9, 0xDA, 0xC0, 0xC1, 0xC3, 0xC4, 0xDB, 0xDD, 0xF7, 0xF8, 0x4F, 0x51, 0x52, 0x5C, 0x90, 0x93, 0x92} {
		if !seen[v] {
			seen[v] = true
			out = append(out, v)
		}
	}
	for v := 5; v < 256; v += 6 {
		if !seen[v] {
			seen[v] = true
			out = append(out, v)
		}
	}
	return out
}

func planFor(cfg *spec.DiskCfg) plan {
	full := cfg.Corpus == "full"
	switch {
	case cfg.Prop == "C09" && !full:
		return plan{railSamples: domainMaxSamples, pokeVals: allVals(), pokeValsHT: fewVals[:8], nEntries: 1, nEntriesHT: 1, maxHT: 1, truncStride: 1}
	case cfg.Prop == "C09":
		return plan{railSamples: domainMaxSamples, pokeVals: allVals(), pokeValsHT: fewVals, nEntries: 2, nEntriesHT: 1, maxHT: 6, truncStride: 1, richGeos: 8}
	case !full:
		return plan{railSamples: 1 << 16, pokeVals: allVals(), pokeValsHT: fewVals, nEntries: 3, nEntriesHT: 2, maxHT: 2, truncStride: 1}
	}
	return plan{railSamples: domainMaxSamples, pokeVals: allVals(), pokeValsHT: fewVals, nEntries: 4, nEntriesHT: 2, maxHT: 64, truncStride: 1, richGeos: 8}
}

// one runs a single case. build() produces the bytes lazily.
func (s *diskState) one(entry string, it *corpusItem, in spec.Info, enumerated bool, faults func() ([]byte, []string)) {
	idx := s.idx
	s.idx++
	if !s.mine(idx) {
		return
	}
	data, fl := faults()
	binary.LittleEndian.PutUint64(s.journal[0:], idx)
	binary.LittleEndian.PutUint64(s.journal[8:], 1)
	res := s.res
	res.LastIndex = idx
	// domain / guard rails
	var S uint64
	if len(data) > domainMaxLen {
		res.Skipped["input longer than 64 KiB"]++
		return
	}
	if entry == "codec:rle" {
		S = uint64(in.W) * uint64(in.H) * uint64(in.SPP)
	} else if w, h, c, tiles, ok := declared(data); ok {
		S = w * h * c
		if w != 0 && h != 0 && c != 0 && (S/w/h != c || S > domainMaxSamples) {
			res.Skipped["header declares more than 2^22 samples"]++
			return
		}
		if s.cfg.Prop == "C08" && S > s.pl.railSamples {
			res.Skipped[fmt.Sprintf("guard rail: header declares more than %d samples (C09's domain)", s.pl.railSamples)]++
			return
		}
		if s.cfg.Prop == "C08" && tiles > railMaxTiles {
			res.Skipped["guard rail: header declares more than 4096 tiles"]++
			return
		}
	}
	if S > domainMaxSamples {
		res.Skipped["frame description declares more than 2^22 samples"]++
		return
	}
	h := sha256.Sum256(append([]byte(entry+"\x00"), data...))
	var k [8]byte
	copy(k[:], h[:8])
	if _, dup := s.seen[k]; !dup {
		s.seen[k] = struct{}{}
		res.DistinctIn++
	}
	res.Cases++
	if enumerated {
		res.Enumerated++
	} else {
		res.Sampled++
	}
	res.EntryCounts[entry]++
	for _, f := range fl {
		if i := strings.IndexByte(f, '('); i > 0 {
			res.FaultCounts[f[:i]]++
		} else {
			res.FaultCounts[f]++
		}
	}
	// budgets on the simulated clock and the allocation ledger
	B := uint64(512<<20) + 64*S
	stepCap := s.cfg.StepCap
	if s.cfg.Prop == "C09" {
		stepCap = 500_000_000 + 4000*(uint64(len(data))+S)
	}
	if s.capDiv > 1 {
		stepCap /= s.capDiv
	}
	verifrt.ResetClock()
	verifrt.ResetOp()
	verifrt.StepCap = stepCap
	verifrt.AllocCap = B
	verifrt.AllocTotalCap = 4 * B
	var or spec.OpResult
	alloc0 := heapAllocs()
	t0 := time.Now()
	guard(&or, func() error { return runEntry(s.env, entry, in, data) })
	ms := float64(time.Since(t0).Microseconds()) / 1000
	allocated := heapAllocs() - alloc0
	verifrt.StepCap, verifrt.AllocCap, verifrt.AllocTotalCap = ^uint64(0), ^uint64(0), ^uint64(0)
	res.Steps += verifrt.Total
	if ms > res.SlowestMs {
		res.SlowestMs = ms
	}
	res.EntryMs[entry+"|"+it.name] += ms
	binary.LittleEndian.PutUint64(s.journal[8:], 0)
	mkCase := func() spec.DiskCase {
		return spec.DiskCase{Index: idx, Entry: entry, Info: in, Data: append([]byte(nil), data...), Base: it.name, Faults: fl}
	}
	if s.cfg.Only >= 0 {
		c := mkCase()
		res.ExplicitOne = &c
	}
	if len(res.Samples) < 3 && idx%977 == 0 {
		c := mkCase()
		if len(c.Data) > 96 {
			c.Data = c.Data[:96]
		}
		res.Samples = append(res.Samples, c)
	}
	record := func(sig, class, detail string) {
		f := s.find[sig]
		if f == nil {
			f = &spec.DiskFinding{Sig: sig, Class: class, PanicFn: or.PanicFn, PanicKind: or.PanicKind, PanicLoc: or.PanicLoc, Panic: or.Panic,
				Stack: or.Stack, Detail: detail, WallMs: ms, Case: mkCase()}
			s.find[sig] = f
		} else if len(data) < len(f.Case.Data) && f.Count < 1<<40 {
			// prefer the smallest example
			f.Case = mkCase()
			f.PanicLoc, f.Panic, f.Stack, f.Detail, f.WallMs = or.PanicLoc, or.Panic, or.Stack, detail, ms
		}
		f.Count++
		found := false
		for _, e := range f.Entries {
			if e == entry {
				found = true
			}
		}
		if !found && len(f.Entries) < 16 {
			f.Entries = append(f.Entries, entry)
		}
	}
	switch {
	case strings.HasPrefix(or.PanicKind, "sentinel-"):
		res.Outcomes[or.PanicKind]++
		// not a panic of the library: a C09 candidate (budget exhausted on the simulated clock / ledger)
		var sv struct {
			kind      string
			site, val uint64
		}
		fmt.Sscanf(or.Panic, "sentinel %s site=%d val=%d", &sv.kind, &sv.site, &sv.val)
		if sv.kind == "step" {
			s.exhausted++
			if s.exhausted == 12 {
				s.capDiv = 25
				res.Probes["step cap divided by 25 after 12 exhausted cases in this shard"]++
			}
		}
		sig := fmt.Sprintf("budget-%s: site %d", sv.kind, sv.site)
		record(sig, "budget-"+sv.kind, fmt.Sprintf("%s (cap steps=%d single-alloc=%d); declared S=%d len=%d", or.Panic, stepCap, B, S, len(data)))
		if f := s.find[sig]; f != nil {
			f.Site, f.Val = uint32(sv.site), sv.val
			// keep the first three examples plus the smallest and the largest request
			switch {
			case len(f.Alt) < 3:
				f.Alt, f.AltVal = append(f.Alt, mkCase()), append(f.AltVal, sv.val)
			case len(f.Alt) < 5:
				f.Alt, f.AltVal = append(f.Alt, mkCase()), append(f.AltVal, sv.val)
			default:
				if sv.val < f.AltVal[3] {
					f.Alt[3], f.AltVal[3] = mkCase(), sv.val
				} else if sv.val > f.AltVal[4] {
					f.Alt[4], f.AltVal[4] = mkCase(), sv.val
				}
			}
		}
	case or.Panic != "":
		res.Outcomes["panic"]++
		if s.cfg.Prop == "C08" || s.cfg.Prop == "C17" {
			record(fmt.Sprintf("panic: %s [%s]", or.PanicFn, or.PanicKind), "panic", or.Panic)
		}
	case or.Err:
		res.Outcomes["error"]++
	default:
		res.Outcomes["ok"]++
	}
	if allocated > B && !strings.HasPrefix(or.PanicKind, "sentinel-") {
		// bytes allocated through paths the make() ledger does not see (append, bytes.Buffer, io.ReadAll)
		res.Outcomes["allocated-above-budget"]++
		hsig := fmt.Sprintf("budget-heap: %s", entry)
		record(hsig, "budget-heap", fmt.Sprintf("%d bytes were allocated during the call (budget %d); declared S=%d len=%d", allocated, B, S, len(data)))
		if f := s.find[hsig]; f != nil {
			// keep the examples that allocated most: they are confirmed first
			switch {
			case len(f.Alt) < 4:
				f.Alt, f.AltVal = append(f.Alt, mkCase()), append(f.AltVal, allocated)
			default:
				mi := 0
				for i := range f.AltVal {
					if f.AltVal[i] < f.AltVal[mi] {
						mi = i
					}
				}
				if allocated > f.AltVal[mi] {
					f.Alt[mi], f.AltVal[mi] = mkCase(), allocated
				}
			}
		}
	}
	if ms > 3000 && !strings.HasPrefix(or.PanicKind, "sentinel-") {
		record(fmt.Sprintf("budget-wall: %s", entry), "budget-wall", fmt.Sprintf("instrumented run took %.0f ms; declared S=%d len=%d", ms, S, len(data)))
	}
	if strings.Contains(strings.Join(fl, " "), "truncate") && it.hdrEnd < len(data) {
		res.Probes["truncation inside entropy-coded segment"]++
	}
}

func diskMain(inPath, outPath string) {
	var cfg spec.DiskCfg
	readJSON(inPath, &cfg)
	// address-space limit: a runaway allocation the ledger cannot see ends the
	// process (journal attribution) instead of the sandbox
	lim := syscall.Rlimit{Cur: 24 << 30, Max: 24 << 30}
	_ = syscall.Setrlimit(syscall.RLIMIT_AS, &lim)
	env := newEnv()
	res := &spec.DiskResult{Skipped: map[string]uint64{}, FaultCounts: map[string]uint64{}, EntryCounts: map[string]uint64{},
		Outcomes: map[string]uint64{}, Probes: map[string]uint64{}, EntryMs: map[string]float64{}}
	s := &diskState{pl: planFor(&cfg), cfg: &cfg, env: env, res: res, journal: mmapJournal(cfg.Journal), find: map[string]*spec.DiskFinding{},
		seen: map[[8]byte]struct{}{}, t0: time.Now()}
	corpus := buildCorpus(env, &cfg)
	for _, it := range corpus {
		res.Corpus = append(res.Corpus, fmt.Sprintf("%s(%dB,hdr %d)", it.name, len(it.data), it.hdrEnd))
	}
	verifrt.SoloBegin()
	htSeen := 0
	for ci := range corpus {
		it := &corpus[ci]
		if len(it.data) > 1400 {
			continue
		}
		ents := entriesFor(it, false)
		nE, vals := s.pl.nEntries, s.pl.pokeVals
		if s.pl.richGeos > 0 && it.geo >= s.pl.richGeos {
			vals = fewVals
		}
		if it.ht {
			htSeen++
			if htSeen > s.pl.maxHT {
				continue
			}
			nE, vals = s.pl.nEntriesHT, s.pl.pokeValsHT
		}
		for ei, entry := range ents {
			d := it.data
			for o := 0; o < len(d); o += s.pl.truncStride {
				o := o
				s.one(entry, it, it.info, true, func() ([]byte, []string) {
					return append([]byte(nil), d[:o]...), []string{fmt.Sprintf("truncate(%d)", o)}
				})
			}
			s.one(entry, it, it.info, true, func() ([]byte, []string) { return append(append([]byte(nil), d...), 0), []string{"pad(0x00)"} })
			if ei >= nE {
				continue // further entry points see truncations only
			}
			hdr := it.hdrEnd
			if hdr > 400 {
				hdr = 400
			}
			for o := 0; o < hdr; o++ {
				for _, v := range vals {
					if byte(v) == d[o] {
						continue
					}
					o, v := o, v
					s.one(entry, it, it.info, true, func() ([]byte, []string) {
						out := append([]byte(nil), d...)
						out[o] = byte(v)
						return out, []string{fmt.Sprintf("poke(%d,%#x)", o, v)}
					})
				}
			}
			// torn write at every offset: the new stream up to there, then an erased (0xFF) or
			// zeroed medium for the rest of the frame
			if ei == 0 {
				for o := 2; o < len(d); o++ {
					for _, fill := range []byte{0xFF, 0x00} {
						o, fill := o, fill
						s.one(entry, it, it.info, true, func() ([]byte, []string) {
							out := append([]byte(nil), d[:o]...)
							for len(out) < len(d) {
								out = append(out, fill)
							}
							return out, []string{fmt.Sprintf("torn(%d,%#x)", o, fill)}
						})
					}
				}
			}
			// a lost sector inside the frame: 4 or 8 bytes read back erased (0xFF) or zeroed, the rest intact
			if ei == 0 {
				for o := 2; o+4 <= len(d); o++ {
					for _, l := range []int{4, 8} {
						for _, fill := range []byte{0xFF, 0x00} {
							o, l, fill := o, l, fill
							s.one(entry, it, it.info, true, func() ([]byte, []string) {
								out := append([]byte(nil), d...)
								for i := o; i < o+l && i < len(out); i++ {
									out[i] = fill
								}
								return out, []string{fmt.Sprintf("sector(%d,%d,%#x)", o, l, fill)}
							})
						}
					}
				}
			}
			// a stale copy of a header block: every marker segment once more right behind itself, with one
			// byte of the copy changed (the older version of a block that was rewritten in place and
			// is still chained in). A decoder that lets a repeated segment replace the first sees
			// dimensions, counts and table selectors the stream's own first header never declared.
			if ei == 0 {
				for _, sg := range headerSegments(it.family, d, it.hdrEnd) {
					so, sl := sg[0], sg[1]
					if sl > 64 {
						continue // tables: their repetition is legal and the poke sweep covers their bytes
					}
					for j := 4; j < sl; j++ {
						for _, v := range []int{0x00, 0x01, 0x4E, 0x7F, 0xFF} {
							if byte(v) == d[so+j] {
								continue
							}
							so, sl, j, v := so, sl, j, v
							s.one(entry, it, it.info, true, func() ([]byte, []string) {
								out := append([]byte(nil), d[:so+sl]...)
								out = append(out, d[so:so+sl]...)
								out[so+sl+j] = byte(v)
								out = append(out, d[so+sl:]...)
								return out, []string{fmt.Sprintf("stale-copy(%d,%d,+%d,%#x)", so, sl, j, v)}
							})
						}
						// the older block described another image: two adjacent 16- or 32-bit fields
						// (height and width) differ in their high-order bytes
						for _, gap := range []int{2, 4} {
							if j+gap >= sl {
								continue
							}
							for _, v := range []int{0x4E, 0xFF} {
								so, sl, j, v, gap := so, sl, j, v, gap
								s.one(entry, it, it.info, true, func() ([]byte, []string) {
									out := append([]byte(nil), d[:so+sl]...)
									out = append(out, d[so:so+sl]...)
									out[so+sl+j], out[so+sl+j+gap] = byte(v), byte(v)
									out = append(out, d[so+sl:]...)
									return out, []string{fmt.Sprintf("stale-copy2(%d,%d,+%d/+%d,%#x)", so, sl, j, j+gap, v)}
								})
							}
						}
					}
				}
			}
			// entropy-coded body: every byte, a few values (bit flips at both ends, 0x00, 0xFF)
			if ei == 0 {
				for o := it.hdrEnd; o < len(d); o++ {
					bv := []int{int(d[o]) ^ 0x01, int(d[o]) ^ 0x80, 0x00, 0xFF}
					if !it.ht {
						bv = append(bv, int(d[o])^0x10, 0x7F)
						if len(d)-it.hdrEnd <= 96 {
							bv = allValsCached // a short entropy-coded body gets every value at every byte
						}
					}
					for _, v := range bv {
						if byte(v) == d[o] {
							continue
						}
						o, v := o, v
						s.one(entry, it, it.info, true, func() ([]byte, []string) {
							out := append([]byte(nil), d...)
							out[o] = byte(v)
							return out, []string{fmt.Sprintf("poke-body(%d,%#x)", o, v)}
						})
					}
				}
			}
		}
		// every registered codec is handed a frame description by its caller: a description that
		// disagrees with the (valid) stream is one more way storage and stream can be out of step
		if it.family != "rle" {
			vals := []int{0, 1, 2, 3, 7, 8, 9, 12, 15, 16, 17, 32, 255, 65535}
			if it.ht {
				vals = []int{0, 1, 3, 8, 16, 65535}
			}
			for _, entry := range ents {
				if !strings.HasPrefix(entry, "codec:") {
					continue
				}
				for _, f := range []string{"Rows", "Columns", "BitsAllocated", "BitsStored", "SamplesPerPixel", "PixelRepresentation", "PlanarConfiguration"} {
					for _, v := range vals {
						in := it.info
						switch f {
						case "Rows":
							in.H = v
						case "Columns":
							in.W = v
						case "BitsAllocated":
							in.BA = v
						case "BitsStored":
							in.BS = v
						case "SamplesPerPixel":
							in.SPP = v
						case "PixelRepresentation":
							in.PR = v
						case "PlanarConfiguration":
							in.Planar = v
						}
						f, v := f, v
						s.one(entry, it, in, true, func() ([]byte, []string) {
							return it.data, []string{fmt.Sprintf("info-corrupt(%s=%d)", f, v)}
						})
					}
				}
			}
		}
		// RLE: the frame description is faulted independently
		if it.family == "rle" {
			vals := []int{0, 1, 2, 3, 7, 8, 9, 15, 16, 17, 24, 32, 33, 64, 255, 256, 4096, 65535}
			for _, f := range []string{"Rows", "Columns", "BitsAllocated", "BitsStored", "SamplesPerPixel", "PlanarConfiguration"} {
				for _, v := range vals {
					in := it.info
					switch f {
					case "Rows":
						in.H = v
					case "Columns":
						in.W = v
					case "BitsAllocated":
						in.BA = v
					case "BitsStored":
						in.BS = v
					case "SamplesPerPixel":
						in.SPP = v
					case "PlanarConfiguration":
						in.Planar = v
					}
					f, v := f, v
					s.one("codec:rle", it, in, true, func() ([]byte, []string) {
						return it.data, []string{fmt.Sprintf("info-corrupt(%s=%d)", f, v)}
					})
				}
			}
		}
	}
	// ---- sampled: multi-fault sequences, faults in entropy-coded data, splices, cross-family entry points
	r := spec.NewRng(cfg.Seed ^ 0xD15C)
	var sampled uint64
	for cfg.MaxSampled > 0 && sampled < cfg.MaxSampled*uint64(cfg.Shards) {
		if cfg.Only < 0 && cfg.DeadlineS > 0 && time.Since(s.t0).Seconds() > cfg.DeadlineS {
			break
		}
		// the draw sequence is identical in every shard (replayable by index); only execution is sharded
		it := &corpus[r.Intn(len(corpus))]
		other := &corpus[r.Intn(len(corpus))]
		cross := r.Chance(1, 8)
		es := entriesFor(it, cross)
		entry := es[r.Intn(len(es))]
		nf := 1 + r.Intn(4)
		fr := r.Child(sampled)
		in := it.info
		if it.family == "rle" && r.Chance(1, 3) {
			switch r.Intn(4) {
			case 0:
				in.H = r.Intn(40)
			case 1:
				in.W = r.Intn(40)
			case 2:
				in.BA = []int{0, 1, 8, 16, 24, 32, 64}[r.Intn(7)]
			case 3:
				in.SPP = r.Intn(6)
			}
		}
		if len(it.data) > 8000 && !(s.idx%uint64(cfg.Shards) == uint64(cfg.Shard)) {
			// large third-party streams: cheap skip for foreign shards
		}
		sampled++
		s.one(entry, it, in, false, func() ([]byte, []string) {
			d := it.data
			var fl []string
			for i := 0; i < nf; i++ {
				var name string
				d, name = applyFault(fr, d, other.data)
				fl = append(fl, name)
			}
			return d, fl
		})
	}
	for _, f := range s.find {
		res.Findings = append(res.Findings, *f)
	}
	sort.Slice(res.Findings, func(i, j int) bool { return res.Findings[i].Sig < res.Findings[j].Sig })
	res.Done = true
	writeJSON(outPath, res)
}

var _ = unsafe.Sizeof(0)

var allocSample = []metrics.Sample{{Name: "/gc/heap/allocs:bytes"}}

// heapAllocs returns the cumulative number of bytes allocated on the heap.
func heapAllocs() uint64 {
	metrics.Read(allocSample)
	if allocSample[0].Value.Kind() == metrics.KindUint64 {
		return allocSample[0].Value.Uint64()
	}
	return 0
}
