package main

import (
	"encoding/binary"
	"fmt"
	"sort"

	"github.com/cocosip/go-dicom-codecs/verifrt"

	"verif/sim/spec"
)

var seamTS = []string{"rle", "50", "51", "57", "70", "80", "81", "90", "91", "92", "93", "201", "202", "203"}

func uidOf(ts string) string {
	if s, ok := tsByName[ts]; ok {
		return s.UID().UID()
	}
	return ts
}

// seamBases are valid (frame description, frames) pairs per codec.
func seamBases(ts string, full bool) []spec.Info {
	mono8 := spec.Info{W: 9, H: 7, SPP: 1, BA: 8, BS: 8, HB: 7, PI: "MONOCHROME2"}
	rgb8 := spec.Info{W: 5, H: 6, SPP: 3, BA: 8, BS: 8, HB: 7, PI: "RGB"}
	mono16 := spec.Info{W: 9, H: 7, SPP: 1, BA: 16, BS: 16, HB: 15, PI: "MONOCHROME2"}
	mono12 := spec.Info{W: 8, H: 8, SPP: 1, BA: 16, BS: 12, HB: 11, PI: "MONOCHROME2"}
	// colour-by-plane: RLE codes it natively, a codec that converts (or ignores) the layout
	// still has to apply its length check to the frame it was handed
	rgb8p := rgb8
	rgb8p.Planar = 1
	switch ts {
	case "50":
		return []spec.Info{mono8, rgb8, rgb8p}
	case "51":
		return []spec.Info{mono8, mono12, rgb8p}
	}
	// every codec meets one- and three-component frames, an 8-bit and a 16-bit container,
	// and a precision that does not fill its container (12 in 16)
	rgb12 := spec.Info{W: 5, H: 6, SPP: 3, BA: 16, BS: 12, HB: 11, PI: "RGB"}
	out := []spec.Info{mono8, mono16, rgb8, rgb12, rgb8p}
	if ts == "rle" {
		rgb12.BS, rgb12.HB = 16, 15
		out = []spec.Info{mono8, mono16, rgb8, rgb12, rgb8p}
	}
	if full {
		out = append(out, mono12, spec.Info{W: 7, H: 3, SPP: 3, BA: 8, BS: 5, HB: 4, PI: "RGB"}, spec.Info{W: 4, H: 4, SPP: 1, BA: 16, BS: 10, HB: 9, PI: "MONOCHROME2"})
	}
	return out
}

// boundKV lists in-range parameter values at and next to the ends of the documented ranges.
var boundKV = map[string][]interface{}{
	"quality":             {1.0, 2.0, 50.0, 99.0, 100.0},
	"near":                {0.0, 1.0, 2.0, 3.0, 10.0, 127.0, 128.0, 254.0, 255.0},
	"predictor":           {1.0, 2.0, 3.0, 4.0, 5.0, 6.0, 7.0},
	"numLevels":           {0.0, 1.0, 2.0, 5.0, 6.0},
	"numLayers":           {1.0, 2.0, 3.0, 8.0},
	"progressionOrder":    {0.0, 1.0, 2.0, 3.0, 4.0},
	"rate":                {1.0, 5.0, 20.0, 80.0, 100.0},
	"blockWidth":          {4.0, 8.0, 16.0, 32.0, 64.0},
	"blockHeight":         {4.0, 8.0, 16.0, 32.0, 64.0},
	"targetRatio":         {1.0, 5.0, 50.0},
	"allowMCT":            {true, false},
	"irreversible":        {true, false},
	"usePCRDOpt":          {true, false},
	"appendLosslessLayer": {true, false},
}

var boundKeys = func() []string {
	ks := make([]string, 0, len(boundKV))
	for k := range boundKV {
		ks = append(ks, k)
	}
	sort.Strings(ks)
	return ks
}()

// seamRunOne executes one faulted Encode (and the Decode of what it returned).
func seamRunOne(env *Env, op *spec.Op) (enc spec.OpResult, dec *spec.OpResult) {
	tc := &taskCtx{}
	verifrt.StepCap = verifrt.Total + 400_000_000
	verifrt.AllocCap, verifrt.AllocTotalCap = 1<<30, 4<<30
	enc, _ = env.execOp(op, tc, nil, true)
	if !enc.Err && len(enc.Out) > 0 {
		in, ok := spec.ServedInfo(op)
		if ok {
			tc.sinks = append(tc.sinks, enc.Out)
			d := spec.Op{Kind: "dec", TS: op.TS, Info: in, From: 0, Params: spec.Params{Mode: "nil"}}
			verifrt.StepCap = verifrt.Total + 400_000_000
			r, _ := env.execOp(&d, tc, nil, false)
			dec = &r
		}
	}
	verifrt.StepCap, verifrt.AllocCap, verifrt.AllocTotalCap = ^uint64(0), ^uint64(0), ^uint64(0)
	return
}

func seamMain(inPath, outPath string) {
	var cfg spec.DiskCfg
	readJSON(inPath, &cfg)
	env := newEnv()
	res := &spec.DiskResult{Skipped: map[string]uint64{}, FaultCounts: map[string]uint64{}, EntryCounts: map[string]uint64{},
		Outcomes: map[string]uint64{}, Probes: map[string]uint64{}, EntryMs: map[string]float64{}}
	journal := mmapJournal(cfg.Journal)
	find := map[string]*spec.DiskFinding{}
	full := cfg.Corpus == "full"
	verifrt.SoloBegin()
	var idx uint64
	emit := func(op spec.Op) {
		i := idx
		idx++
		if cfg.Only >= 0 {
			if i != uint64(cfg.Only) {
				return
			}
		} else if i < cfg.StartAt || int(i%uint64(cfg.Shards)) != cfg.Shard {
			return
		}
		binary.LittleEndian.PutUint64(journal[0:], i)
		binary.LittleEndian.PutUint64(journal[8:], 1)
		enc, dec := seamRunOne(env, &op)
		binary.LittleEndian.PutUint64(journal[8:], 0)
		res.Cases++
		res.Enumerated++
		res.LastIndex = i
		res.EntryCounts["encodec:"+op.TS]++
		for k, v := range enc.Fired {
			res.FaultCounts[k] += uint64(v)
		}
		if op.Params.Mode == "foreign" || op.Params.Mode == "illtyped" {
			res.FaultCounts["params-"+op.Params.Mode]++
		}
		if len(op.Params.KV) == 1 {
			res.FaultCounts["params-boundary"]++
		}
		switch {
		case enc.Panic != "":
			res.Outcomes["panic"]++
		case enc.Err:
			res.Outcomes["rejected"]++
		case dec != nil && !dec.Err:
			res.Outcomes["stream returned and decoded"]++
		default:
			res.Outcomes["stream returned"]++
		}
		c := spec.DiskCase{Index: i, Entry: "encodec:" + op.TS, Info: op.Info, Op: &op}
		if cfg.Only >= 0 {
			res.ExplicitOne = &c
		}
		if len(res.Samples) < 3 && i%211 == 0 {
			res.Samples = append(res.Samples, c)
		}
		sig, class, detail := spec.JudgeSeam(&op, uidOf(op.TS), &enc, dec)
		if sig == "" {
			return
		}
		f := find[sig]
		if f == nil {
			f = &spec.DiskFinding{Sig: sig, Class: class, PanicFn: enc.PanicFn, PanicKind: enc.PanicKind, PanicLoc: enc.PanicLoc, Panic: enc.Panic,
				Stack: enc.Stack, Detail: detail, Case: c}
			find[sig] = f
		}
		f.Count++
	}
	vals := []int{0, 1, 2, 3, 4, 7, 8, 9, 12, 13, 15, 16, 17, 24, 32, 33, 255, 256, 65535}
	fields := []string{"Rows", "Columns", "BitsAllocated", "BitsStored", "HighBit", "SamplesPerPixel", "PixelRepresentation", "PlanarConfiguration"}
	for _, ts := range seamTS {
		for bi, in := range seamBases(ts, full) {
			nFrames := 1 + bi%2
			frames := make([]spec.Frame, nFrames)
			for i := range frames {
				frames[i] = spec.Frame{Gen: "noise", Seed: uint64(1000 + bi*10 + i)}
			}
			base := spec.Op{Kind: "enc", TS: ts, Info: in, Frames: frames, From: -1, Params: spec.Params{Mode: "nil"}}
			emit(base)
			flen := in.FrameLen()
			// every buffer length from one byte short down to empty
			for k := 0; k < nFrames; k++ {
				for n := 1; n <= flen; n++ {
					op := base
					op.SrcFaults = []spec.Fault{{Kind: "short", K: k, N: n}}
					emit(op)
				}
				for _, kind := range []string{"empty", "nil", "get-err"} {
					op := base
					op.SrcFaults = []spec.Fault{{Kind: kind, K: k}}
					emit(op)
				}
				for _, n := range []int{1, 2, 3, 17} {
					op := base
					op.SrcFaults = []spec.Fault{{Kind: "long", K: k, N: n}}
					emit(op)
				}
				op := base
				op.SinkFaults = []spec.Fault{{Kind: "add-err", K: k}}
				emit(op)
			}
			for _, d := range []int{-2, -1, 1, 2} {
				op := base
				op.SrcFaults = []spec.Fault{{Kind: "count", N: d}}
				emit(op)
			}
			{
				op := base
				op.Frames = nil // zero frames
				emit(op)
				op = base
				op.SrcFaults = []spec.Fault{{Kind: "noinfo"}}
				emit(op)
			}
			for _, f := range fields {
				for _, v := range vals {
					op := base
					op.SrcFaults = []spec.Fault{{Kind: "info-corrupt", F: f, N: v}}
					emit(op)
					if full {
						// a corrupted description together with a short frame
						op2 := base
						op2.SrcFaults = []spec.Fault{{Kind: "info-corrupt", F: f, N: v}, {Kind: "short", K: 0, N: 1 + (v % 5)}}
						emit(op2)
					}
				}
			}
			for _, pm := range []spec.Params{{Mode: "foreign"}, {Mode: "illtyped", Obj: 0}, {Mode: "illtyped", Obj: 1}, {Mode: "illtyped", Obj: 2}, {Mode: "illtyped", Obj: 3},
				{Mode: "base", KV: map[string]interface{}{"quality": -5.0, "near": 999.0, "predictor": 42.0, "numLevels": 99.0, "blockWidth": 3.0, "blockHeight": 100000.0, "rate": -7.0, "bitDepth": 13.0}},
				{Mode: "default", KV: map[string]interface{}{"quality": 0.0, "near": 256.0, "predictor": -1.0, "numLevels": -1.0, "blockWidth": 0.0, "blockHeight": -4.0, "numLayers": -3.0, "bitDepth": 0.0}}} {
				op := base
				op.Params = pm
				emit(op)
			}
			// in-range parameter values at and next to the ends of their ranges, one key at a time:
			// whatever the codec accepts must come back as a stream its own Decode accepts
			for _, k := range boundKeys {
				for _, v := range boundKV[k] {
					for _, mode := range []string{"base", "default"} {
						op := base
						op.Params = spec.Params{Mode: mode, KV: map[string]interface{}{k: v}}
						emit(op)
					}
				}
			}
		}
	}
	res.Steps = verifrt.Total
	res.DistinctIn = res.Cases
	for _, f := range find {
		res.Findings = append(res.Findings, *f)
	}
	sort.Slice(res.Findings, func(i, j int) bool { return res.Findings[i].Sig < res.Findings[j].Sig })
	res.Done = true
	res.Corpus = []string{fmt.Sprintf("%d transfer syntaxes x valid base descriptions", len(seamTS))}
	writeJSON(outPath, res)
}
