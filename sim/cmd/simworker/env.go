package main

import (
	"crypto/sha256"
	"errors"
	"fmt"

	"github.com/cocosip/go-dicom/pkg/imaging/imagetypes"

	"verif/sim/spec"
)

// SimPD is the simulated PixelData source/sink (DESIGN §3.5). One object plays
// one role in one call. Every fault firing is counted.
type SimPD struct {
	info      *imagetypes.FrameInfo
	frames    [][]byte
	faults    []spec.Fault
	encaps    bool
	retains   bool
	getCalls  int
	addCalls  int
	got       [][]byte
	kept      [][]byte
	gotHash   [][32]byte
	fired     map[string]int
	getFailed map[int]bool
	addErrd   bool
	addAfter  int
	served    map[int][]byte
	infoSeen  *imagetypes.FrameInfo
	noInfo    bool
}

var errSimIO = errors.New("simulated I/O error")

func infoFromSpec(in spec.Info) *imagetypes.FrameInfo {
	return &imagetypes.FrameInfo{
		Width: uint16(in.W), Height: uint16(in.H),
		BitsAllocated: uint16(in.BA), BitsStored: uint16(in.BS), HighBit: uint16(in.HB),
		SamplesPerPixel: uint16(in.SPP), PixelRepresentation: uint16(in.PR),
		PlanarConfiguration: uint16(in.Planar), PhotometricInterpretation: in.PI,
	}
}

func newSimPD(in spec.Info, frames [][]byte, faults []spec.Fault, encaps bool) *SimPD {
	return &SimPD{info: infoFromSpec(in), frames: frames, faults: faults, encaps: encaps,
		fired: map[string]int{}, getFailed: map[int]bool{}, served: map[int][]byte{}}
}

func (p *SimPD) fire(kind string) { p.fired[kind]++ }

func (p *SimPD) GetFrame(k int) ([]byte, error) {
	p.getCalls++
	if k < 0 || k >= len(p.frames) {
		return nil, fmt.Errorf("frame index %d out of range [0, %d)", k, len(p.frames))
	}
	fr := p.frames[k]
	for _, f := range p.faults {
		if f.K != k {
			continue
		}
		switch f.Kind {
		case "get-err":
			if !p.getFailed[k] {
				p.getFailed[k] = true
				p.fire(f.Kind)
				return nil, errSimIO
			}
		case "short":
			n := f.N
			if n > len(fr) {
				n = len(fr)
			}
			p.fire(f.Kind)
			out := make([]byte, len(fr)-n)
			copy(out, fr)
			p.served[k] = append([]byte{}, out...)
			return out, nil
		case "long":
			p.fire(f.Kind)
			out := make([]byte, len(fr)+f.N)
			copy(out, fr)
			for i := len(fr); i < len(out); i++ {
				out[i] = byte(0xA5 + i)
			}
			if f.N == 1 {
				out[len(fr)] = 0 // DICOM even-length padding
			}
			p.served[k] = append([]byte{}, out...)
			return out, nil
		case "empty":
			p.fire(f.Kind)
			p.served[k] = []byte{}
			return []byte{}, nil
		case "nil":
			p.fire(f.Kind)
			p.served[k] = []byte{}
			return nil, nil
		}
	}
	p.served[k] = append([]byte(nil), fr...) // snapshot: the library may (wrongly) write into fr
	return fr, nil
}

// servedFrames returns the frames as the library saw them.
func (p *SimPD) servedFrames() [][]byte {
	out := make([][]byte, len(p.frames))
	for i := range p.frames {
		if s, ok := p.served[i]; ok {
			out[i] = s
		} else {
			out[i] = p.frames[i]
		}
	}
	return out
}

func (p *SimPD) AddFrame(b []byte) error {
	idx := p.addCalls
	p.addCalls++
	if p.addErrd {
		p.addAfter++
	}
	for _, f := range p.faults {
		if f.Kind == "add-err" && f.K == idx {
			p.fire(f.Kind)
			p.addErrd = true
			return errSimIO
		}
	}
	if p.retains {
		// keep the very slice (re-hashed at the end of the run) and a snapshot
		p.kept = append(p.kept, b)
		p.gotHash = append(p.gotHash, sha256.Sum256(b))
		p.fire("sink-retains")
	}
	c := make([]byte, len(b))
	copy(c, b)
	p.got = append(p.got, c)
	return nil
}

func (p *SimPD) FrameCount() int {
	n := len(p.frames)
	for _, f := range p.faults {
		if f.Kind == "count" {
			p.fire("count")
			n += f.N
			if n < 0 {
				n = 0
			}
		}
	}
	return n
}

func (p *SimPD) GetFrameInfo() *imagetypes.FrameInfo {
	for _, f := range p.faults {
		switch f.Kind {
		case "noinfo":
			p.fire(f.Kind)
			p.noInfo = true
			return nil
		case "info-corrupt":
			p.fire(f.Kind)
			c := *p.info
			switch f.F {
			case "Rows":
				c.Height = uint16(f.N)
			case "Columns":
				c.Width = uint16(f.N)
			case "BitsAllocated":
				c.BitsAllocated = uint16(f.N)
			case "BitsStored":
				c.BitsStored = uint16(f.N)
			case "HighBit":
				c.HighBit = uint16(f.N)
			case "SamplesPerPixel":
				c.SamplesPerPixel = uint16(f.N)
			case "PixelRepresentation":
				c.PixelRepresentation = uint16(f.N)
			case "PlanarConfiguration":
				c.PlanarConfiguration = uint16(f.N)
			}
			p.infoSeen = &c
			return &c
		}
	}
	return p.info
}

func (p *SimPD) IsEncapsulated() bool { return p.encaps }

// retainedIntact re-hashes every retained slice.
func (p *SimPD) retainedIntact() bool {
	for i, b := range p.kept {
		if i < len(p.gotHash) && sha256.Sum256(b) != p.gotHash[i] {
			return false
		}
	}
	return true
}

func hashFrames(fs [][]byte) [32]byte {
	h := sha256.New()
	for _, f := range fs {
		fmt.Fprintf(h, "%d:", len(f))
		h.Write(f)
	}
	var out [32]byte
	copy(out[:], h.Sum(nil))
	return out
}
