package main

func diskMain(in, out string)    { die(3, "disk mode not built yet") }
func seamMain(in, out string)    { die(3, "seam mode not built yet") }
func confirmMain(in, out string) { die(3, "confirm mode not built yet") }
