package main

import (
	"fmt"
	"os"
	"path/filepath"
	"strings"
	"sync/atomic"
	"time"

	"verif/sim/spec"
)

var shrinkSeq int64

// hasSig executes a C18 run and reports whether the violation signature recurs.
func hasSigC18(b *Build, run *spec.Run, rc *refCache, sig string) bool {
	rc.fill(collectOps([]spec.Run{*run}), 4)
	for _, t := range run.Tasks {
		for i := range t.Ops {
			if e := rc.get(&t.Ops[i]); e == nil || e.err != nil {
				return false
			}
		}
	}
	dir := filepath.Join(b.Scratch, fmt.Sprintf("shrink-%d", atomic.AddInt64(&shrinkSeq, 1)))
	defer os.RemoveAll(dir)
	out := evalC18(b, run, rc, dir, 5*time.Minute)
	if out.infra != "" {
		return false
	}
	for _, v := range out.viols {
		if v.Sig == sig {
			return true
		}
	}
	return false
}

func cloneRun(r *spec.Run) spec.Run {
	c := *r
	c.Tasks = make([]spec.Task, len(r.Tasks))
	for i, t := range r.Tasks {
		c.Tasks[i].Ops = append([]spec.Op(nil), t.Ops...)
	}
	c.Schedule = append([]spec.Seg(nil), r.Schedule...)
	return c
}

// keepTasks builds the run restricted to the given task indices.
func keepTasks(r *spec.Run, keep []int) spec.Run {
	c := cloneRun(r)
	remap := map[int]int{}
	c.Tasks = nil
	for ni, oi := range keep {
		remap[oi] = ni
		c.Tasks = append(c.Tasks, spec.Task{Ops: append([]spec.Op(nil), r.Tasks[oi].Ops...)})
	}
	c.Schedule = nil
	for _, s := range r.Schedule {
		if ni, ok := remap[s.Task]; ok {
			c.Schedule = append(c.Schedule, spec.Seg{Task: ni, Until: s.Until})
		}
	}
	return c
}

// minimiseC18 shrinks a failing run while the same signature persists:
// clients → operations → preemptions → frames/dimensions (DESIGN §3.7).
func minimiseC18(b *Build, v Violation, rc *refCache) (Violation, string) {
	budget := 60
	try := func(c *spec.Run) bool {
		if budget <= 0 {
			return false
		}
		budget--
		return hasSigC18(b, c, rc, v.Sig)
	}
	cur := cloneRun(&v.Run)
	from := fmt.Sprintf("%d clients, %d ops, %d segments", len(cur.Tasks), countOps(&cur), len(cur.Schedule))
	if !try(&cur) {
		v.Notes = append(v.Notes, "minimiser: the original run did not reproduce on re-execution; reported unminimised")
		return v, from
	}
	// 1. clients: pairs first, then drop one at a time
	if n := len(cur.Tasks); n > 2 {
		found := false
	pairs:
		for i := 0; i < n && budget > 10; i++ {
			for j := i + 1; j < n && budget > 10; j++ {
				c := keepTasks(&cur, []int{i, j})
				if try(&c) {
					cur, found = c, true
					break pairs
				}
			}
		}
		if !found {
			for i := len(cur.Tasks) - 1; i >= 0 && len(cur.Tasks) > 1; i-- {
				keep := []int{}
				for k := range cur.Tasks {
					if k != i {
						keep = append(keep, k)
					}
				}
				c := keepTasks(&cur, keep)
				if try(&c) {
					cur = c
				}
			}
		}
	}
	// 2. trailing operations of every client
	for ti := range cur.Tasks {
		for len(cur.Tasks[ti].Ops) > 1 {
			c := cloneRun(&cur)
			c.Tasks[ti].Ops = c.Tasks[ti].Ops[:len(c.Tasks[ti].Ops)-1]
			if !try(&c) {
				break
			}
			cur = c
		}
	}
	// 3. preemptions: drop segments, last first
	for i := len(cur.Schedule) - 1; i >= 0 && len(cur.Schedule) > 0; i-- {
		if i >= len(cur.Schedule) {
			continue
		}
		c := cloneRun(&cur)
		c.Schedule = append(c.Schedule[:i], c.Schedule[i+1:]...)
		if try(&c) {
			cur = c
		}
	}
	// 4. one frame per operation
	{
		c := cloneRun(&cur)
		changed := false
		for ti := range c.Tasks {
			for oi := range c.Tasks[ti].Ops {
				if len(c.Tasks[ti].Ops[oi].Frames) > 1 {
					c.Tasks[ti].Ops[oi].Frames = c.Tasks[ti].Ops[oi].Frames[:1]
					c.Tasks[ti].Ops[oi].SrcFaults, c.Tasks[ti].Ops[oi].SinkFaults = nil, nil
					changed = true
				}
			}
		}
		// step indices shift when frames change: re-plan as a plain pin in the middle is not attempted;
		// keep only if the signature persists under the old step numbers
		if changed && try(&c) {
			cur = c
		}
	}
	v.Run = cur
	v.Notes = append(v.Notes, fmt.Sprintf("minimised to %d clients, %d ops, %d segments", len(cur.Tasks), countOps(&cur), len(cur.Schedule)))
	return v, from
}

func countOps(r *spec.Run) int {
	n := 0
	for _, t := range r.Tasks {
		n += len(t.Ops)
	}
	return n
}

// reproduce replays the run n times in fresh processes.
func reproduce(b *Build, v *Violation, rc *refCache, n int) string {
	ok := 0
	for i := 0; i < n; i++ {
		if hasSigC18(b, &v.Run, rc, v.Sig) {
			ok++
		}
	}
	return fmt.Sprintf("%d/%d", ok, n)
}

// ---------------------------------------------------------------- calibration

// calibrate is the trace-distance self-check (DESIGN §4): two clients store to
// one harness variable; the first is parked k steps after its store. If even a
// short distance is not reported, the invisible hand-off no longer works on this
// toolchain and nothing the check says would mean anything: exit 2.
func calibrate(b *Build) map[string]bool {
	out := map[string]bool{}
	for _, k := range []int{64, 100000} {
		mk := func(burn int) spec.Op {
			return spec.Op{Kind: "selfrace", From: -1, Q: burn}
		}
		r := spec.Run{Mode: "sched", Tasks: []spec.Task{{Ops: []spec.Op{mk(k)}}, {Ops: []spec.Op{mk(0)}}},
			Schedule: []spec.Seg{{Task: 0, Until: uint64(k)}, {Task: 1, Until: farStep}, {Task: 0, Until: farStep}}}
		dir := filepath.Join(b.Scratch, fmt.Sprintf("calib-%d", k))
		_, info, err := b.execInfo("race", &r, dir, time.Minute)
		os.RemoveAll(dir)
		if err != nil {
			infraFail("calibration run failed: %v %s", err, tail(info.Stderr, 500))
		}
		out[fmt.Sprint(k)] = strings.Contains(info.RaceLog, "main.selfRace")
	}
	if !out["64"] {
		infraFail("calibration: a race between a parked client and a running one is NOT reported by the race detector; the serial-scheduler hand-off is visible to TSan on this toolchain")
	}
	return out
}

// ---------------------------------------------------------------- dispatcher

func cmdCheck(args []string) int {
	o := parseOpts(args)
	fmt.Printf("VERIF_SEED=%d tier=%s property=%s\n", o.seed, o.tier, o.prop)
	switch o.prop {
	case "C18":
		return checkC18(o)
	case "C10":
		return checkC10(o)
	case "C08":
		return checkDisk(o, "C08")
	case "C09":
		return checkDisk(o, "C09")
	case "C17":
		return checkC17(o)
	}
	fmt.Fprintf(os.Stderr, "unknown property %q\n", o.prop)
	return 2
}
