package main

import (
	"encoding/json"
	"fmt"
	"os"
	"path/filepath"
	"regexp"
	"sort"
	"strconv"
	"strings"
	"sync"
	"sync/atomic"
	"time"

	"verif/sim/spec"
)

// ---------------------------------------------------------------- options

type checkOpts struct {
	prop  string
	tier  string
	seed  uint64
	procs int
	scale float64 // multiplies run counts (VERIF_SCALE), for experiments
}

func parseOpts(args []string) checkOpts {
	o := checkOpts{tier: envOr("VERIF_TIER", "quick"), procs: 16, scale: 1}
	if len(args) > 0 {
		o.prop = args[0]
		args = args[1:]
	}
	for i := 0; i < len(args); i++ {
		switch args[i] {
		case "--tier":
			if i+1 < len(args) {
				o.tier = args[i+1]
				i++
			}
		case "--seed":
			if i+1 < len(args) {
				o.seed, _ = strconv.ParseUint(args[i+1], 10, 64)
				i++
			}
		}
	}
	if v := os.Getenv("VERIF_SEED"); v != "" {
		if s, err := strconv.ParseInt(v, 10, 64); err == nil {
			o.seed = uint64(s)
		} else if u, err := strconv.ParseUint(v, 10, 64); err == nil {
			o.seed = u
		}
	} else if o.seed == 0 {
		if o.tier == "thorough" {
			o.seed = 20260923
		} else {
			o.seed = 1
		}
	}
	if v := os.Getenv("VERIF_PROCS"); v != "" {
		if n, err := strconv.Atoi(v); err == nil && n > 0 {
			o.procs = n
		}
	}
	if v := os.Getenv("VERIF_SCALE"); v != "" {
		if f, err := strconv.ParseFloat(v, 64); err == nil && f > 0 {
			o.scale = f
		}
	}
	if o.tier != "quick" && o.tier != "thorough" {
		o.tier = "quick"
	}
	return o
}

func (o checkOpts) n(quick, thorough int) int {
	n := quick
	if o.tier == "thorough" {
		n = thorough
	}
	n = int(float64(n) * o.scale)
	if n < 1 {
		n = 1
	}
	return n
}

// ---------------------------------------------------------------- parallel map

func parallel(n, procs int, f func(i int)) {
	var next int64 = -1
	var wg sync.WaitGroup
	if procs > n {
		procs = n
	}
	for w := 0; w < procs; w++ {
		wg.Add(1)
		go func() {
			defer wg.Done()
			for {
				i := int(atomic.AddInt64(&next, 1))
				if i >= n {
					return
				}
				f(i)
			}
		}()
	}
	wg.Wait()
}

// ---------------------------------------------------------------- violations

// Violation is one oracle failure with everything needed to report it.
type Violation struct {
	Prop   string
	Class  string // race | solo-mismatch | panic | fatal | I1.. | budget ...
	Sig    string // normalised signature (DESIGN §3.8)
	Detail string
	Run    spec.Run
	Build  string
	Seed   uint64
	Notes  []string
}

// Finding is an entry of known_findings.json.
type Finding struct {
	Property  string `json:"property"`
	Status    string `json:"status"` // known | fixed
	Signature string `json:"signature"`
	Commit    string `json:"commit,omitempty"`
	Note      string `json:"note"`
}

func loadFindings() []Finding {
	var fs []Finding
	b, err := os.ReadFile(filepath.Join(verifHome, "known_findings.json"))
	if err != nil {
		return nil
	}
	if err := json.Unmarshal(b, &fs); err != nil {
		infraFail("known_findings.json: %v", err)
	}
	return fs
}

func globMatch(pat, s string) bool {
	if !strings.Contains(pat, "*") {
		return pat == s
	}
	re := "^" + strings.ReplaceAll(regexp.QuoteMeta(pat), `\*`, ".*") + "$"
	ok, _ := regexp.MatchString(re, s)
	return ok
}

// knownFor returns the known (not fixed) finding that covers sig, if any.
func knownFor(fs []Finding, prop, sig string) *Finding {
	for i := range fs {
		if fs[i].Property == prop && fs[i].Status == "known" && globMatch(fs[i].Signature, sig) {
			return &fs[i]
		}
	}
	return nil
}

// ---------------------------------------------------------------- evidence

type Evidence struct {
	PropertyID  string                 `json:"property_id"`
	Tier        string                 `json:"tier"`
	Seed        int64                  `json:"seed"`
	Level       string                 `json:"level"`
	Coverage    map[string]interface{} `json:"coverage"`
	Assumptions []string               `json:"assumptions"`
	WallS       float64                `json:"wall_s"`
	Violations  int                    `json:"violations"`
}

func writeEvidence(ev *Evidence) {
	dir := filepath.Join(verifHome, "evidence")
	os.MkdirAll(dir, 0o755)
	b, _ := json.MarshalIndent(ev, "", " ")
	path := filepath.Join(dir, ev.PropertyID+".json")
	if err := os.WriteFile(path, append(b, '\n'), 0o644); err != nil {
		infraFail("write evidence: %v", err)
	}
}

// ---------------------------------------------------------------- replay files

func replayPath(prop, sig string) string {
	h := spec.Hash(sig)
	return filepath.Join(verifHome, "replays", fmt.Sprintf("%s-%s.json", prop, h[:10]))
}

func writeReplay(v *Violation, reproduced string, tree string, minFrom string) string {
	rp := spec.Replay{Property: v.Prop, Class: v.Class, Signature: v.Sig, Detail: v.Detail, Seed: v.Seed,
		Build: v.Build, Tree: tree, Run: v.Run, Reproduced: reproduced, MinimisedFrom: minFrom, Notes: v.Notes}
	os.MkdirAll(filepath.Join(verifHome, "replays"), 0o755)
	p := replayPath(v.Prop, v.Sig)
	b, _ := json.MarshalIndent(&rp, "", " ")
	if err := os.WriteFile(p, append(b, '\n'), 0o644); err != nil {
		infraFail("write replay: %v", err)
	}
	return p
}

// ---------------------------------------------------------------- misc

type counter struct {
	mu sync.Mutex
	m  map[string]int
}

func newCounter() *counter { return &counter{m: map[string]int{}} }
func (c *counter) add(k string, n int) {
	c.mu.Lock()
	c.m[k] += n
	c.mu.Unlock()
}
func (c *counter) snapshot() map[string]int {
	c.mu.Lock()
	defer c.mu.Unlock()
	out := map[string]int{}
	for k, v := range c.m {
		out[k] = v
	}
	return out
}

func sortedStrings(m map[string]bool) []string {
	out := make([]string, 0, len(m))
	for k := range m {
		out = append(out, k)
	}
	sort.Strings(out)
	return out
}

type stopwatch struct{ t0 time.Time }

func startWatch() stopwatch       { return stopwatch{time.Now()} }
func (s stopwatch) secs() float64 { return time.Since(s.t0).Seconds() }
func logf(format string, a ...interface{}) {
	fmt.Fprintf(os.Stderr, format+"\n", a...)
}

// opKey is the memoisation key of a solo reference.
func opKey(op *spec.Op) string { return spec.Hash(op) }

func framesEqual(a, b [][]byte) bool {
	if len(a) != len(b) {
		return false
	}
	for i := range a {
		if string(a[i]) != string(b[i]) {
			return false
		}
	}
	return true
}
