package main

import (
	"fmt"
	"os"
	"path/filepath"
	"sort"
	"strings"
	"time"

	"verif/sim/spec"
)

// eventLog is everything of one sched run that must be identical across
// executions of the same replay input (DESIGN §4 determinism self-test).
func eventLog(b *Build, run *spec.Run, dir string) (string, error) {
	res, info, err := b.execInfo("race", run, dir, 10*time.Minute)
	if err != nil {
		return "", fmt.Errorf("%v: %s", err, tail(info.Stderr, 600))
	}
	var sb strings.Builder
	fmt.Fprintf(&sb, "steps=%d\n", res.TotalSteps)
	for _, s := range res.Switches {
		fmt.Fprintf(&sb, "sw %d@%d/%d>%d\n", s.From, s.At, s.Site, s.To)
	}
	for ti, t := range res.Tasks {
		for oi, r := range t {
			fmt.Fprintf(&sb, "op %d.%d err=%v panic=%q out=%s steps=%d start=%d add=%d get=%d fired=%v src=%v\n", ti, oi, r.Err, r.PanicKind, spec.Hash(r.Out), r.Steps, r.StartStep, r.AddCalls, r.GetCalls, sortedFired(r.Fired), r.SrcIntact)
		}
	}
	sigs := map[string]bool{}
	for _, rp := range parseRaceLog(info.RaceLog, b.Repo) {
		sigs[rp.detail()] = true
	}
	for _, s := range sortedStrings(sigs) {
		fmt.Fprintf(&sb, "race %s\n", s)
	}
	return sb.String(), nil
}

func sortedFired(m map[string]int) string {
	ks := make([]string, 0, len(m))
	for k, v := range m {
		ks = append(ks, fmt.Sprintf("%s=%d", k, v))
	}
	sort.Strings(ks)
	return strings.Join(ks, ",")
}

// determinismSelfTest runs nSeeds C18 workloads `reps` times each across
// GOMAXPROCS 1/4/16 and demands byte-identical event logs.
// raceStability: per GOMAXPROCS value, in how many executions of a racy seed was the race set reported in full.
var raceStability = map[int][2]int{}

func stripRaces(l string) (string, string) {
	var a, r []string
	for _, ln := range strings.Split(l, "\n") {
		if strings.HasPrefix(ln, "race ") {
			r = append(r, ln)
		} else {
			a = append(a, ln)
		}
	}
	return strings.Join(a, "\n"), strings.Join(r, "\n")
}

func determinismSelfTest(b *Build, baseSeed uint64, nSeeds, reps, procs int) (checked int, diverged []string) {
	runs := make([]spec.Run, nSeeds)
	metas := make([]c18Meta, nSeeds)
	for i := range runs {
		s := spec.SplitMix64(baseSeed ^ spec.SplitMix64(uint64(i)+0x5E1F))
		runs[i], metas[i] = genC18(s, i*3, false) // i*3: spread over codecs, incl. those with known races
	}
	rc := newRefCache(b, "plain")
	rc.sortMaps = true
	rc.fill(collectOps(runs), procs)
	for i := range runs {
		plan(b, &runs[i], &metas[i], rc, runs[i].Seed)
	}
	gm := []int{1, 4, 16, 2}
	logs := make([][]string, nSeeds)
	errs := make([]error, nSeeds*reps)
	for i := range logs {
		logs[i] = make([]string, reps)
	}
	parallel(nSeeds*reps, procs, func(k int) {
		i, r := k/reps, k%reps
		run := cloneRun(&runs[i])
		run.Gomaxprocs = gm[r%len(gm)]
		dir := filepath.Join(b.Scratch, fmt.Sprintf("det-%d-%d", i, r))
		l, err := eventLog(b, &run, dir)
		os.RemoveAll(dir)
		logs[i][r], errs[k] = l, err
	})
	for k, e := range errs {
		if e != nil {
			diverged = append(diverged, fmt.Sprintf("seed %d rep %d: worker failed: %v", runs[k/reps].Seed, k%reps, e))
		}
	}
	for i := range logs {
		base, _ := stripRaces(logs[i][0])
		union := map[string]bool{}
		for r := 0; r < reps; r++ {
			_, rs := stripRaces(logs[i][r])
			for _, l := range strings.Split(rs, "\n") {
				if l != "" {
					union[l] = true
				}
			}
		}
		for r := 0; r < reps; r++ {
			det, rs := stripRaces(logs[i][r])
			if r > 0 {
				checked++
				if det != base {
					diverged = append(diverged, fmt.Sprintf("seed %d (policy %s): execution %d (GOMAXPROCS %d) differs from execution 0:\n%s", runs[i].Seed, metas[i].Policy, r, gm[r%len(gm)], firstDiff(base, det)))
				}
			}
			if len(union) > 0 {
				n := 0
				for _, l := range strings.Split(rs, "\n") {
					if l != "" {
						n++
					}
				}
				st := raceStability[gm[r%len(gm)]]
				st[1]++
				if n == len(union) {
					st[0]++
				}
				raceStability[gm[r%len(gm)]] = st
			}
		}
	}
	return
}

func firstDiff(a, b string) string {
	la, lb := strings.Split(a, "\n"), strings.Split(b, "\n")
	for i := 0; i < len(la) && i < len(lb); i++ {
		if la[i] != lb[i] {
			return fmt.Sprintf("  line %d:\n  - %s\n  + %s", i, la[i], lb[i])
		}
	}
	return fmt.Sprintf("  lengths differ: %d vs %d lines", len(la), len(lb))
}

// cmdSelftest: --smoke (5 seeds x 2) is part of setup; the full run is 40 seeds x 6.
func cmdSelftest(args []string) int {
	smoke := len(args) > 0 && args[0] == "--smoke"
	b := NewBuild("race", "plain")
	cal := calibrate(b)
	nSeeds, reps := 40, 8
	if smoke {
		nSeeds, reps = 5, 2
	}
	t0 := time.Now()
	checked, div := determinismSelfTest(b, 7, nSeeds, reps, 16)
	fmt.Printf("selftest: build %.1fs; calibration (race reported with the writer parked k steps after its store): %v; determinism: %d comparisons over %d seeds x %d executions (GOMAXPROCS 1/4/16) in %.1fs, %d divergences\n",
		b.BuildS, cal, checked, nSeeds, reps, time.Since(t0).Seconds(), len(div))
	fmt.Printf("selftest: race-report stability (executions of racy seeds whose report set was complete / all such executions, per GOMAXPROCS): %v\n", raceStability)
	for _, d := range div {
		fmt.Println("DIVERGENCE:", d)
	}
	if len(div) > 0 {
		return 2
	}
	return 0
}
