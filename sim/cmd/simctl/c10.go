package main

import (
	"fmt"
	"os"
	"path/filepath"
	"sort"
	"strings"
	"sync/atomic"
	"time"

	"verif/sim/spec"
)

// ---------------------------------------------------------------- history generator

type c10Meta struct {
	Shape   string
	Faulted bool
	TS      []string
}

// rawLink remembers, for an encode op, the raw frames it was given, so that a
// later decode of its output can be held to lossless equality (I5).
type rawLink struct {
	info   spec.Info
	frames []spec.Frame
	ts     string
}

// sweepKinds are the PixelData faults the enumerated fault sweep places in every
// codec's Encode and Decode (one fault per history, at the first or the last frame).
var sweepKinds = []string{"get-err", "add-err", "short", "long", "empty", "nil", "count-", "count+"}

// nSweep is the size of the enumerated fault sweep: codec x {enc,dec} x fault kind.
func nSweep() int { return len(allTS) * 2 * len(sweepKinds) }

// genSweep builds history number j of the fault sweep: a clean 2- or 3-frame
// Encode, then the faulted call, then a fault-free call on the same codec (I6).
func genSweep(seed uint64, j int) (spec.Run, c10Meta) {
	r := spec.NewRng(seed).Child(3)
	ts := allTS[j%len(allTS)]
	kind := []string{"enc", "dec"}[(j/len(allTS))%2]
	fk := sweepKinds[(j/(2*len(allTS)))%len(sweepKinds)]
	in := genInfo(r, ts, genOpt{maxDim: 16})
	nf := 2 + r.Intn(2)
	fs := genFrames(r, nf)
	k := []int{0, nf - 1}[r.Intn(2)]
	var f spec.Fault
	switch fk {
	case "count-":
		f = spec.Fault{Kind: "count", N: -1}
	case "count+":
		f = spec.Fault{Kind: "count", N: 1}
	case "short":
		f = spec.Fault{Kind: "short", K: k, N: 1 + r.Intn(9)}
	case "long":
		f = spec.Fault{Kind: "long", K: k, N: 1}
	default:
		f = spec.Fault{Kind: fk, K: k}
	}
	clean := spec.Op{Kind: "enc", TS: ts, Info: in, Frames: fs, From: -1, Params: spec.Params{Mode: "nil"}}
	var ops []spec.Op
	if kind == "enc" {
		bad := clean
		if fk == "add-err" {
			bad.SinkFaults = []spec.Fault{f}
		} else {
			bad.SrcFaults = []spec.Fault{f}
		}
		ops = []spec.Op{bad, clean, {Kind: "dec", TS: ts, Info: in, From: 1, Params: spec.Params{Mode: "nil"}}}
	} else {
		bad := spec.Op{Kind: "dec", TS: ts, Info: in, From: 0, Params: spec.Params{Mode: "nil"}}
		if fk == "add-err" {
			bad.SinkFaults = []spec.Fault{f}
		} else {
			bad.SrcFaults = []spec.Fault{f}
		}
		ops = []spec.Op{clean, bad, {Kind: "dec", TS: ts, Info: in, From: 0, Params: spec.Params{Mode: "nil"}}}
	}
	return spec.Run{Mode: "history", Seed: seed, Tasks: []spec.Task{{Ops: ops}}, StepCap: 3e9},
		c10Meta{Shape: "fault-sweep", Faulted: true, TS: []string{ts}}
}

// genLongRun builds the long history of one codec: many distinct frames through Encode and
// Decode in one process, then the first ones again. Bounded caches, pools and tables that
// only misbehave after dozens of distinct inputs (wrong eviction, stale slots) need this;
// the short seeded histories never fill them.
func genLongRun(seed uint64, j int) (spec.Run, c10Meta) {
	r := spec.NewRng(seed).Child(5)
	ts := allTS[j%len(allTS)]
	in := genInfo(r, ts, genOpt{maxDim: 12})
	var ops []spec.Op
	const groups, per = 6, 8
	for g := 0; g < groups; g++ {
		ops = append(ops, spec.Op{Kind: "enc", TS: ts, Info: in, Frames: genFrames(r, per), From: -1, Params: spec.Params{Mode: "nil"}})
	}
	for g := 0; g < groups; g++ {
		ops = append(ops, spec.Op{Kind: "dec", TS: ts, Info: in, From: g, Params: spec.Params{Mode: "nil"}})
	}
	// second pass over the earliest streams, and the earliest frames encoded once more
	ops = append(ops, spec.Op{Kind: "dec", TS: ts, Info: in, From: 0, Params: spec.Params{Mode: "nil"}})
	ops = append(ops, spec.Op{Kind: "dec", TS: ts, Info: in, From: 1, FromSel: []int{7, 0, 3}, Params: spec.Params{Mode: "nil"}})
	ops = append(ops, spec.Op{Kind: "enc", TS: ts, Info: in, Frames: ops[0].Frames, From: -1, Params: spec.Params{Mode: "nil"}})
	return spec.Run{Mode: "history", Seed: seed, Tasks: []spec.Task{{Ops: ops}}, StepCap: 3e9},
		c10Meta{Shape: "long-run", TS: []string{ts}}
}

// genParamLeak builds the enumerated "settings must not leak" history of one codec: a stream
// made with private non-default settings is decoded with nil parameters (and once with a fresh
// default object), and the calls with nil / fresh default parameters that follow must return
// what they return in a fresh world. A codec that caches the parameters object it creates for
// a nil argument, or keeps what a Decode learned from a stream, fails I1 here.
func genParamLeak(seed uint64, j int) (spec.Run, c10Meta) {
	r := spec.NewRng(seed).Child(7)
	ts := allTS[j%len(allTS)]
	in := genInfo(r, ts, genOpt{maxDim: 16})
	fs, fs2 := genFrames(r, 1+r.Intn(2)), genFrames(r, 1)
	nilP := spec.Params{Mode: "nil"}
	priv := spec.Params{Mode: spec.Pick(r, []string{"default", "base"}), KV: genKV(r, ts)}
	ops := []spec.Op{
		{Kind: "enc", TS: ts, Info: in, Frames: fs, From: -1, Params: priv},
		{Kind: "dec", TS: ts, Info: in, From: 0, Params: nilP},
		{Kind: "enc", TS: ts, Info: in, Frames: fs2, From: -1, Params: nilP},
		{Kind: "dec", TS: ts, Info: in, From: 2, Params: nilP},
		{Kind: "dec", TS: ts, Info: in, From: 0, Params: spec.Params{Mode: "default"}},
		{Kind: "enc", TS: ts, Info: in, Frames: fs2, From: -1, Params: spec.Params{Mode: "default"}},
		{Kind: "enc", TS: ts, Info: in, Frames: fs, From: -1, Params: nilP},
	}
	return spec.Run{Mode: "history", Seed: seed, Tasks: []spec.Task{{Ops: ops}}, StepCap: 3e9},
		c10Meta{Shape: "param-leak", TS: []string{ts}}
}

func genHistory(seed uint64, idx int, thorough bool) (spec.Run, c10Meta) {
	r := spec.NewRng(seed).Child(1)
	meta := c10Meta{}
	maxDim := 24
	if thorough {
		maxDim = 64
		if r.Chance(1, 20) {
			maxDim = 256
		}
	}
	shapes := []string{"codec-mix", "multi-frame", "permute", "j2k-objects", "params-reuse", "fail-then-good", "bits-sweep", "codec-mix"}
	meta.Shape = shapes[idx%len(shapes)]
	meta.Faulted = (idx/len(shapes))%3 == 2 // every third block of histories is the fault-injecting configuration
	focus := allTS[(idx/len(shapes))%len(allTS)]
	var ops []spec.Op
	add := func(op spec.Op) int {
		ops = append(ops, op)
		return len(ops) - 1
	}
	encDec := func(ts string, in spec.Info, frames []spec.Frame, p spec.Params, sel []int) {
		e := add(spec.Op{Kind: "enc", TS: ts, Info: in, Frames: frames, From: -1, Params: p, SinkRetains: r.Chance(1, 3)})
		add(spec.Op{Kind: "dec", TS: ts, Info: in, From: e, FromSel: sel, Params: p, SinkRetains: r.Chance(1, 3)})
	}
	pmode := func(ts string) spec.Params {
		switch r.Intn(4) {
		case 0:
			return spec.Params{Mode: "nil"}
		case 1:
			return spec.Params{Mode: "default", KV: genKV(r, ts)}
		case 2:
			return spec.Params{Mode: "base", KV: genKV(r, ts)}
		}
		return spec.Params{Mode: "default"}
	}
	pickTS := func() string {
		if r.Chance(2, 3) {
			return focus
		}
		return spec.Pick(r, allTS)
	}
	switch meta.Shape {
	case "codec-mix":
		// interleaved encodes and decodes of unrelated images on the registry codecs
		n := 2 + r.Intn(5)
		for i := 0; i < n; i++ {
			ts := pickTS()
			in := genInfo(r, ts, genOpt{maxDim: maxDim, signed: true})
			encDec(ts, in, genFrames(r, 1+r.Intn(3)), pmode(ts), nil)
		}
	case "multi-frame":
		ts := focus
		in := genInfo(r, ts, genOpt{maxDim: maxDim, signed: true})
		nf := 2 + r.Intn(7)
		fs := make([]spec.Frame, nf)
		for i := range fs {
			// alternate wildly different frames
			fs[i] = spec.Frame{Gen: []string{"noise", "zero", "max", "ramp", "noise", "checker", "const", "sparse"}[(i+int(seed%8))%8], Seed: r.U64() >> 1}
		}
		encDec(ts, in, fs, pmode(ts), nil)
	case "permute":
		// the same frames inside [a,b,c], [c,a], [a], [a,a,a]
		ts := focus
		in := genInfo(r, ts, genOpt{maxDim: maxDim, signed: true})
		a, bb, c := genFrames(r, 1)[0], genFrames(r, 1)[0], genFrames(r, 1)[0]
		p := pmode(ts)
		for si, seq := range [][]spec.Frame{{a, bb, c}, {c, a}, {a}, {a, a, a}} {
			e := add(spec.Op{Kind: "enc", TS: ts, Info: in, Frames: seq, From: -1, Params: p})
			if si == 0 {
				add(spec.Op{Kind: "dec", TS: ts, Info: in, From: e, FromSel: []int{2, 0, 1}, Params: p})
			} else {
				add(spec.Op{Kind: "dec", TS: ts, Info: in, From: e, Params: p})
			}
		}
	case "j2k-objects":
		// long-lived jpeg2000.Encoder / Decoder objects across unrelated images
		in := genInfo(r, "90", genOpt{maxDim: maxDim})
		if r.Bool() {
			in.SPP = spec.Pick(r, []int{2, 3})
			in.PI = "RGB"
		}
		ht := r.Chance(1, 3)
		cfgs := []*spec.J2KEnc{
			{Levels: r.Range(0, 3), Lossless: true, MCT: in.SPP == 3, Layers: 1, HT: ht},
			{Levels: r.Range(0, 3), Lossless: ht || r.Bool(), MCT: false, Layers: 1 + r.Intn(2), HT: ht, Quality: 70},
		}
		if !ht && in.SPP >= 2 {
			cfgs[1] = &spec.J2KEnc{Levels: 0, Lossless: true, MCT: true, Layers: 1, Binding: true, BindOff: []int32{5, -5, 3}}
		}
		if !ht && in.SPP == 1 && in.W >= 8 && in.H >= 8 && r.Bool() {
			cfgs[1] = &spec.J2KEnc{Levels: 1, Lossless: true, Layers: 1, ROI: []int{1, 1, in.W / 2, in.H / 2, 3}}
		}
		dec := &spec.J2KDec{HT: ht}
		n := 3 + r.Intn(5)
		var encs []int
		for i := 0; i < n; i++ {
			slot := 1 + r.Intn(2)
			e := add(spec.Op{Kind: "j2kenc", TS: "90", Info: in, Frames: genFrames(r, 1+r.Intn(2)), From: -1, Obj: slot, Enc: cfgs[slot-1]})
			encs = append(encs, e)
			src := spec.Pick(r, encs)
			dop := spec.Op{Kind: "j2kdec", TS: "90", Info: in, From: src, Obj: 1 + r.Intn(2), Dec: dec}
			if r.Chance(1, 3) {
				// a torn read: the decode fails after the main header (and its MCT/ROI markers) was
				// interpreted; the next decode on the same object must not see what it left behind
				dop.Cut = 1 + r.Intn(48)
			}
			add(dop)
		}
	case "params-reuse":
		// one typed parameters object: Encode, Decode (which may write into it), Encode again
		ts := focus
		in := genInfo(r, ts, genOpt{maxDim: maxDim, signed: true})
		p := spec.Params{Mode: spec.Pick(r, []string{"default", "base"}), KV: genKV(r, ts), Obj: 1}
		fs := genFrames(r, 1+r.Intn(2))
		e := add(spec.Op{Kind: "enc", TS: ts, Info: in, Frames: fs, From: -1, Params: p})
		// a stream made with different settings is decoded with the same object in between
		other := add(spec.Op{Kind: "enc", TS: ts, Info: in, Frames: genFrames(r, 1), From: -1, Params: spec.Params{Mode: "default", KV: genKV(r, ts)}})
		add(spec.Op{Kind: "dec", TS: ts, Info: in, From: other, Params: p})
		add(spec.Op{Kind: "dec", TS: ts, Info: in, From: e, Params: p})
		add(spec.Op{Kind: "enc", TS: ts, Info: in, Frames: fs, From: -1, Params: p})
	case "fail-then-good":
		// a failed decode (truncated stream) followed by a good one on the same objects
		ts := focus
		in := genInfo(r, ts, genOpt{maxDim: maxDim, signed: true})
		fs := genFrames(r, 2)
		e := add(spec.Op{Kind: "enc", TS: ts, Info: in, Frames: fs, From: -1, Params: spec.Params{Mode: "nil"}})
		add(spec.Op{Kind: "dec", TS: ts, Info: in, From: e, Params: spec.Params{Mode: "nil"},
			SrcFaults: []spec.Fault{{Kind: "short", K: r.Intn(2), N: 1 + r.Intn(40)}}})
		add(spec.Op{Kind: "dec", TS: ts, Info: in, From: e, Params: spec.Params{Mode: "nil"}})
		if isJ2K(ts) {
			ht := ts == "201" || ts == "202" || ts == "203"
			d := &spec.J2KDec{HT: ht}
			add(spec.Op{Kind: "j2kdec", TS: ts, Info: in, From: e, FromSel: []int{0}, Obj: 1, Dec: d, Cut: 1 + r.Intn(60)})
			add(spec.Op{Kind: "j2kdec", TS: ts, Info: in, From: e, FromSel: []int{1}, Obj: 1, Dec: d})
		}
	case "bits-sweep":
		ts := focus
		for i := 0; i < 3; i++ {
			// the first description of every sweep is the 16-allocated / <=8-stored container: its
			// size clause is a known finding for nine codecs, its other clauses (caller buffers,
			// order, independence) are not and must stay watched there too
			in := genInfo(r, ts, genOpt{maxDim: maxDim, allowOdd16: true, forceOdd16: i == 0, signed: true})
			if ts == "rle" && r.Bool() {
				in.W, in.H = 2*r.Intn(8)+1, 2*r.Intn(8)+1 // odd frame lengths
				in.BA, in.BS, in.HB = 8, 8, 7
			}
			encDec(ts, in, genFrames(r, 1+r.Intn(2)), spec.Params{Mode: "nil"}, nil)
		}
	}
	if meta.Faulted {
		// place faults inside operations (not between them)
		for i := range ops {
			op := &ops[i]
			if (op.Kind != "enc" && op.Kind != "dec") || len(op.SrcFaults) > 0 || !r.Chance(1, 2) {
				continue
			}
			nf := len(op.Frames)
			if op.From >= 0 {
				nf = len(ops[op.From].Frames)
				if len(op.FromSel) > 0 {
					nf = len(op.FromSel)
				}
			}
			if nf == 0 {
				nf = 1
			}
			k := r.Intn(nf)
			switch r.Intn(9) {
			case 0:
				op.SrcFaults = []spec.Fault{{Kind: "get-err", K: k}}
			case 1:
				op.SinkFaults = []spec.Fault{{Kind: "add-err", K: k}}
			case 2:
				op.SrcFaults = []spec.Fault{{Kind: "short", K: k, N: 1 + r.Intn(16)}}
			case 3:
				op.SrcFaults = []spec.Fault{{Kind: "long", K: k, N: spec.Pick(r, []int{1, 1, 2, 7})}}
			case 4:
				op.SrcFaults = []spec.Fault{{Kind: spec.Pick(r, []string{"empty", "nil"}), K: k}}
			case 5:
				op.SrcFaults = []spec.Fault{{Kind: "count", N: spec.Pick(r, []int{-1, 1, 2})}}
			case 6:
				op.SrcFaults = []spec.Fault{{Kind: "noinfo"}}
			case 7:
				f := spec.Pick(r, []string{"Rows", "Columns", "BitsAllocated", "BitsStored", "SamplesPerPixel", "PlanarConfiguration", "PixelRepresentation"})
				op.SrcFaults = []spec.Fault{{Kind: "info-corrupt", F: f, N: spec.Pick(r, []int{0, 1, 2, 3, 7, 8, 9, 12, 16, 17, 32, 255, 65535})}}
			case 8:
				op.Params = spec.Params{Mode: spec.Pick(r, []string{"foreign", "illtyped"}), Obj: r.Intn(4)}
			}
		}
	}
	for _, op := range ops {
		if op.TS != "" {
			meta.TS = append(meta.TS, op.TS)
		}
	}
	return spec.Run{Mode: "history", Seed: seed, Tasks: []spec.Task{{Ops: ops}}, StepCap: 3e9}, meta
}

// ---------------------------------------------------------------- evaluation

// refOpFor builds the fresh-world, single-frame operation for frame i of op.
func refOpFor(op *spec.Op, got *spec.OpResult, frame []byte) spec.Op {
	// (a Cut is already applied to the served frame, so the reference carries none)
	r := spec.Op{Kind: op.Kind, TS: op.TS, Target: op.Target, Info: op.Info, From: -1, Enc: op.Enc, Dec: op.Dec,
		Near: op.Near, Q: op.Q, Pred: op.Pred}
	if got.InfoSeen != nil {
		r.Info = *got.InfoSeen
	}
	r.Frames = []spec.Frame{{Lit: frame, IsLit: true}}
	switch op.Params.Mode {
	case "default", "base":
		r.Params = spec.Params{Mode: op.Params.Mode, KV: got.ParamsIn}
	default:
		r.Params = spec.Params{Mode: op.Params.Mode, Obj: op.Params.Obj}
		if op.Params.Mode != "illtyped" {
			r.Params.Obj = 0
		}
	}
	for _, f := range op.SrcFaults {
		if f.Kind == "noinfo" {
			r.SrcFaults = []spec.Fault{f}
		}
	}
	return r
}

func faulted(op *spec.Op) bool {
	if len(op.SrcFaults) > 0 || len(op.SinkFaults) > 0 {
		return true
	}
	return op.Params.Mode == "foreign" || op.Params.Mode == "illtyped"
}

func hasFault(op *spec.Op, kind string) bool {
	for _, f := range op.SrcFaults {
		if f.Kind == kind {
			return true
		}
	}
	for _, f := range op.SinkFaults {
		if f.Kind == kind {
			return true
		}
	}
	return false
}

func infoClass(in spec.Info) string {
	c := fmt.Sprintf("BitsAllocated=%d", in.BA)
	switch {
	case in.BA == 16 && in.BS <= 8:
		c += " BitsStored<=8"
	case in.BS == in.BA:
		c += " BitsStored=BitsAllocated"
	default:
		c += " BitsStored<BitsAllocated"
	}
	if in.PR != 0 {
		c += " signed"
	}
	if in.SPP > 1 {
		c += fmt.Sprintf(" spp=%d", in.SPP)
	}
	return c
}

// sizeClass / losslessClass are the frame-description classes that key known
// findings for I5: coarse enough to be stable across seeds, fine enough that a
// failure in a class that works today is still reported.
func sizeClass(in spec.Info) string {
	if in.BA == 16 && in.BS <= 8 {
		return "BitsAllocated=16 BitsStored<=8"
	}
	return fmt.Sprintf("BitsAllocated=%d BitsStored>%d", in.BA, in.BA-8)
}

func losslessClass(in spec.Info) string {
	c := fmt.Sprintf("BitsAllocated=%d", in.BA)
	switch {
	case in.BA == 16 && in.BS <= 8:
		c += " BitsStored<=8"
	case in.BS == in.BA:
		c += " BitsStored=BitsAllocated"
	default:
		c += " BitsStored<BitsAllocated"
	}
	if in.PR != 0 {
		c += " signed"
	}
	return c
}

type c10Outcome struct {
	viols  []Violation
	ops    int
	frames int
	steps  uint64
	fired  map[string]int
	probes map[string]int
	infra  string
	refOps []spec.Op // filled by the first pass
}

var c10Seq int64

// runHistory executes a history in one process.
func runHistory(b *Build, run *spec.Run) (*spec.Result, execInfo, error) {
	dir := filepath.Join(b.Scratch, fmt.Sprintf("hist-%d", atomic.AddInt64(&c10Seq, 1)))
	defer os.RemoveAll(dir)
	return b.execInfo("plain", run, dir, 10*time.Minute)
}

// neededRefs lists the per-frame fresh-world operations of a history result.
func neededRefs(run *spec.Run, res *spec.Result) []spec.Op {
	var out []spec.Op
	ops := run.Tasks[0].Ops
	for oi := range ops {
		if oi >= len(res.Tasks[0]) {
			break
		}
		got := &res.Tasks[0][oi]
		for _, f := range got.In {
			out = append(out, refOpFor(&ops[oi], got, f))
		}
	}
	return out
}

// judgeHistory applies invariants I1..I6 to a history result.
func judgeHistory(run *spec.Run, res *spec.Result, rc *refCache) (out c10Outcome) {
	out.fired, out.probes = map[string]int{}, map[string]int{}
	ops := run.Tasks[0].Ops
	if len(res.Tasks) != 1 || len(res.Tasks[0]) != len(ops) {
		out.infra = "history result malformed"
		return
	}
	raw := map[int]rawLink{}
	add := func(oi int, class, sig, detail string) {
		out.viols = append(out.viols, Violation{Prop: "C10", Class: class, Sig: sig, Detail: fmt.Sprintf("op %d (%s %s): %s", oi, ops[oi].Kind, opTarget(&ops[oi]), detail)})
	}
	for oi := range ops {
		op := &ops[oi]
		got := &res.Tasks[0][oi]
		out.ops++
		out.frames += len(got.In)
		for k, v := range got.Fired {
			out.fired[k] += v
		}
		flt := faulted(op)
		tgt := opTarget(op)
		cls := infoClass(op.Info)
		if got.ParamsBefore != got.ParamsAfter {
			out.probes["parameters object mutated by the library"]++
		}
		if got.PanicKind == "sentinel-step" || got.PanicKind == "sentinel-alloc" || got.PanicKind == "sentinel-alloctotal" {
			out.probes["step/alloc cap hit"]++
			continue
		}
		// per-frame references
		refs := make([]*refEntry, len(got.In))
		for i, f := range got.In {
			ro := refOpFor(op, got, f)
			refs[i] = rc.get(&ro)
			if refs[i] == nil || refs[i].err != nil {
				out.infra = fmt.Sprintf("missing reference for op %d frame %d: %v", oi, i, refs[i])
				return
			}
		}
		// I4 caller buffers
		if !got.SrcIntact {
			add(oi, "I4", fmt.Sprintf("I4-src-modified: %s %s", op.Kind, tgt), "the caller's input frames were modified during the call")
		}
		if !got.InfoIntact {
			add(oi, "I4", fmt.Sprintf("I4-info-modified: %s %s", op.Kind, tgt), "the caller's FrameInfo was modified during the call")
		}
		if !got.SinkIntact {
			add(oi, "I4", fmt.Sprintf("I4-delivered-frame-modified: %s %s", op.Kind, tgt), "a frame already delivered to the sink was written to later")
		}
		if got.AddAfterErr > 0 {
			add(oi, "I1", fmt.Sprintf("I1-add-after-error: %s %s", op.Kind, tgt), "AddFrame was called again after the sink had returned an error")
		}
		if hasFault(op, "add-err") && got.Fired["add-err"] > 0 && !got.Err {
			add(oi, "I1", fmt.Sprintf("I1-sink-error-swallowed: %s %s", op.Kind, tgt), "AddFrame returned an error but the call reported success")
		}
		if hasFault(op, "get-err") && got.Fired["get-err"] > 0 && !got.Err && len(got.Out) != len(got.In) {
			add(oi, "I1", fmt.Sprintf("I1-source-error-swallowed: %s %s", op.Kind, tgt), "GetFrame returned an error, the call reported success with a frame missing")
		}
		// I1 count/order against one-frame references
		nOut := len(got.Out)
		expect := len(got.In)
		if got.Count > 0 || hasFault(op, "count") {
			expect = got.Count
		}
		if !got.Err {
			if op.Kind == "enc" || op.Kind == "dec" {
				if nOut != expect {
					add(oi, "I1", fmt.Sprintf("I1-count: %s %s", op.Kind, tgt), fmt.Sprintf("success with %d output frames for %d input frames", nOut, expect))
				}
			} else if nOut != len(got.In) {
				add(oi, "I1", fmt.Sprintf("I1-count: %s %s", op.Kind, tgt), fmt.Sprintf("%d outputs for %d inputs", nOut, len(got.In)))
			}
		}
		for i := 0; i < nOut && i < len(refs); i++ {
			ref := &refs[i].res
			if ref.Err || len(ref.Out) != 1 {
				// the fresh world rejects this frame but the history produced output for it
				add(oi, "I2", fmt.Sprintf("I2-frame-dependence: %s %s", op.Kind, tgt), fmt.Sprintf("frame %d produced output here but is rejected alone in a fresh world", i))
				continue
			}
			if string(ref.Out[0]) != string(got.Out[i]) {
				class := "I1-frame-differs-from-fresh-world"
				add(oi, "I1", fmt.Sprintf("%s: %s %s", class, op.Kind, tgt),
					fmt.Sprintf("output frame %d differs from the same frame processed alone on fresh objects (len here=%d fresh=%d)", i, len(got.Out[i]), len(ref.Out[0])))
			}
		}
		// an error here although every frame succeeds alone (fault-free operations only)
		if got.Err && !flt && op.Cut == 0 {
			allOK := len(refs) > 0
			for _, rf := range refs {
				if rf.res.Err {
					allOK = false
				}
			}
			if allOK && got.Panic == "" {
				add(oi, "I6", fmt.Sprintf("I6-fails-after-history: %s %s", op.Kind, tgt), "a fault-free call failed although every frame succeeds alone in a fresh world: "+got.ErrText)
			} else if allOK && got.Panic != "" {
				add(oi, "I6", fmt.Sprintf("I6-panics-after-history: %s %s %s", op.Kind, tgt, got.PanicFn), "a fault-free call panicked although every frame succeeds alone: "+got.Panic)
			} else if !allOK && !flt && validDomain(op) {
				out.probes["valid-domain input rejected in history and fresh world alike (input-domain matter, not a history property)"]++
			}
		}
		// I5 decoded size and lossless equality
		if op.Kind == "enc" && !got.Err && !flt {
			raw[oi] = rawLink{info: op.Info, frames: op.Frames, ts: op.TS}
		}
		_, fromCleanEnc := raw[op.From]
		if op.Kind == "dec" && !got.Err && got.InfoSeen == nil && !hasFault(op, "long") && !hasFault(op, "short") && fromCleanEnc {
			want := op.Info.FrameLen()
			if op.TS == "rle" && want%2 == 1 {
				want++
			}
			for i, f := range got.Out {
				if len(f) != want {
					add(oi, "I5", fmt.Sprintf("I5-size: dec %s %s", tgt, sizeClass(op.Info)),
						fmt.Sprintf("decoded frame %d has %d bytes, Rows*Columns*SamplesPerPixel*ceil(BitsAllocated/8) = %d", i, len(f), want))
					break
				}
			}
			if link, ok := raw[op.From]; ok && losslessTS[op.TS] && link.ts == op.TS && losslessDomain(op.Info) {
				sel := op.FromSel
				for i, f := range got.Out {
					si := i
					if len(sel) > 0 {
						if i >= len(sel) {
							break
						}
						si = sel[i]
					}
					if si >= len(link.frames) {
						break
					}
					src := spec.Materialize(link.info, link.frames[si])
					cmp := f
					if op.TS == "rle" && len(cmp) == len(src)+1 {
						cmp = cmp[:len(src)]
					}
					if len(cmp) == len(src) && string(cmp) != string(src) {
						add(oi, "I5", fmt.Sprintf("I5-lossless: dec %s %s", tgt, losslessClass(op.Info)), fmt.Sprintf("decoded frame %d differs from the source frame of a lossless transfer syntax (%s, %dx%d)", i, cls, op.Info.W, op.Info.H))
						break
					}
				}
			}
		}
	}
	for i := range out.viols {
		out.viols[i].Run = *run
		out.viols[i].Build = "plain"
		out.viols[i].Seed = run.Seed
	}
	out.steps = res.TotalSteps
	return
}

// losslessDomain keeps lossless equality inside what C10 states (DESIGN §5):
// unsigned, or signed with BitsStored = BitsAllocated.
func losslessDomain(in spec.Info) bool {
	return in.PR == 0 || in.BS == in.BA
}

func validDomain(op *spec.Op) bool {
	return (op.Kind == "enc" || op.Kind == "dec") && !(op.Info.BA == 16 && op.Info.BS <= 8)
}

// ---------------------------------------------------------------- the check

func checkC10(o checkOpts) int {
	w := startWatch()
	b := NewBuild("plain")
	logf("C10: VERIF_SEED=%d tier=%s tree=%s build=%.1fs", o.seed, o.tier, b.Tree, b.BuildS)
	thorough := o.tier == "thorough"
	nGen := o.n(336, 8000)
	sweepRounds := 1
	if thorough {
		sweepRounds = 8
	}
	longRounds := 1
	if thorough {
		longRounds = 4
	}
	nLong := longRounds * len(allTS)
	leakRounds := 2
	if thorough {
		leakRounds = 12
	}
	nLeak := leakRounds * len(allTS)
	N := nGen + sweepRounds*nSweep() + nLong + nLeak
	findings := loadFindings()
	runs := make([]spec.Run, N)
	metas := make([]c10Meta, N)
	for i := 0; i < N; i++ {
		s := spec.SplitMix64(o.seed ^ spec.SplitMix64(uint64(i)+0xC10))
		switch {
		case i < nGen:
			runs[i], metas[i] = genHistory(s, i, thorough)
		case i < N-nLong-nLeak:
			runs[i], metas[i] = genSweep(s, i-nGen)
		case i < N-nLeak:
			runs[i], metas[i] = genLongRun(s, i-(N-nLong-nLeak))
		default:
			runs[i], metas[i] = genParamLeak(s, i-(N-nLeak))
		}
	}
	results := make([]*spec.Result, N)
	fatals := make([]string, N)
	t0 := time.Now()
	parallel(N, o.procs, func(i int) {
		res, info, err := runHistory(b, &runs[i])
		if err != nil {
			fatals[i] = fmt.Sprintf("%v; stderr: %s", err, tail(info.Stderr, 1500))
			return
		}
		results[i] = res
	})
	histWall := time.Since(t0).Seconds()
	rc := newRefCache(b, "plain")
	var refOps []spec.Op
	for i := range runs {
		if results[i] != nil {
			refOps = append(refOps, neededRefs(&runs[i], results[i])...)
		}
	}
	t1 := time.Now()
	rc.fill(refOps, o.procs)
	refWall := time.Since(t1).Seconds()
	// I3 determinism: a sample of references is recomputed under a different GOMAXPROCS/GOGC
	detChecked, detViol := checkDeterminism(b, rc, o, findings)
	logf("C10: %d histories in %.1fs, %d per-frame references (%d distinct) in %.1fs, %d determinism re-runs", N, histWall, len(refOps), len(rc.m), refWall, detChecked)

	bySig := map[string][]int{}
	firstV := map[string]Violation{}
	fired := newCounter()
	probes := newCounter()
	shapes := newCounter()
	var steps uint64
	var nOps, nFrames, nFaulted int
	distinct := map[string]bool{}
	for i := range runs {
		if fatals[i] != "" {
			// the process died: a fatal error inside a history is a violation of "every call returns"
			v := Violation{Prop: "C10", Class: "fatal", Sig: "fatal: history process died: " + firstLineWith(fatals[i], "fatal error"), Detail: fatals[i], Run: runs[i], Build: "plain", Seed: runs[i].Seed}
			if _, ok := firstV[v.Sig]; !ok {
				firstV[v.Sig] = v
			}
			bySig[v.Sig] = append(bySig[v.Sig], i)
			continue
		}
		out := judgeHistory(&runs[i], results[i], rc)
		if out.infra != "" {
			infraFail("history %d (seed %d): %s", i, runs[i].Seed, out.infra)
		}
		shapes.add(metas[i].Shape, 1)
		if metas[i].Faulted {
			nFaulted++
		}
		steps += out.steps
		nOps += out.ops
		nFrames += out.frames
		distinct[spec.Hash(runs[i].Tasks)] = true
		for k, v := range out.fired {
			fired.add(k, v)
		}
		for k, v := range out.probes {
			probes.add(k, v)
		}
		for _, v := range out.viols {
			if _, ok := firstV[v.Sig]; !ok {
				firstV[v.Sig] = v
			}
			bySig[v.Sig] = append(bySig[v.Sig], i)
		}
	}
	for _, v := range detViol {
		if _, ok := firstV[v.Sig]; !ok {
			firstV[v.Sig] = v
		}
		bySig[v.Sig] = append(bySig[v.Sig], -1)
	}
	sigs := make([]string, 0, len(bySig))
	for s := range bySig {
		sigs = append(sigs, s)
	}
	sort.Strings(sigs)
	exit, nViol := 0, 0
	var knownMatched []string
	for _, sig := range sigs {
		v := firstV[sig]
		if f := knownFor(findings, "C10", sig); f != nil {
			fmt.Printf("KNOWN-FINDING: property=C10 %s — %s (seen in %d histories)\n", sig, f.Note, len(bySig[sig]))
			knownMatched = append(knownMatched, sig)
			continue
		}
		nViol++
		exit = 1
		mv, from := v, "not minimised: only the first 4 signatures of a run are minimised"
		if nViol <= 4 {
			mv, from = minimiseC10(b, v, rc)
		}
		rep := reproduceC10(b, &mv, rc, 2)
		p := writeReplay(&mv, rep, b.Tree, from)
		fmt.Printf("VIOLATION property=C10 replay=%s\n", p)
		fmt.Printf("  signature: %s\n  detail: %s\n  reproduced: %s; seen in %d of %d histories; first seed %d\n", sig, firstLine(mv.Detail), rep, len(bySig[sig]), N, v.Seed)
	}
	pr := probes.snapshot()
	for _, name := range []string{"parameters object mutated by the library"} {
		if pr[name] == 0 {
			logf("C10: note: probe %q stayed at zero", name)
		}
	}
	samples := []interface{}{}
	for i := 0; i < N && len(samples) < 3; i++ {
		samples = append(samples, map[string]interface{}{"seed": runs[i].Seed, "shape": metas[i].Shape, "faulted": metas[i].Faulted, "ops": describeOps(&runs[i])})
	}
	ev := &Evidence{PropertyID: "C10", Tier: o.tier, Seed: int64(o.seed), Level: "exploration", WallS: w.secs(), Violations: nViol,
		Coverage: map[string]interface{}{
			"evaluations":               N,
			"distinct_nontrivial":       len(distinct),
			"rule":                      "one evaluation = one call history (2..24 operations on long-lived registry codecs, jpeg2000.Encoder/Decoder objects and reused Parameters objects, through a simulated PixelData source/sink with a seeded fault plan; plus the enumerated fault sweep, one 48-frame long run per codec and the enumerated settings-must-not-leak history per codec) executed in one process and judged frame by frame against a fresh-world reference (same frame alone, fresh process, fresh objects); distinct = distinct operation sequences; non-trivial = at least two operations sharing an object",
			"samples":                   samples,
			"histories_per_hour":        float64(N) / (histWall + refWall) * 3600,
			"operations":                nOps,
			"frames_judged":             nFrames,
			"reference_processes":       len(rc.m),
			"determinism_reruns":        detChecked,
			"simulated_steps":           steps,
			"fault_free_histories":      N - nFaulted,
			"fault_injecting_histories": nFaulted,
			"fault_kinds_fired":         fired.snapshot(),
			"history_shapes":            shapes.snapshot(),
			"probes":                    pr,
			"known_findings_matched":    knownMatched,
			"components": map[string]interface{}{
				"real":      []string{"all repository packages (instrumented copy of the working tree)", "go-dicom codec.Registry, BaseParameters, imagetypes"},
				"simulated": []string{"PixelData source and sink (fault plans, retaining sink)", "the caller's call history"},
			},
			"build_s": b.BuildS, "tree": b.Tree,
		},
		Assumptions: []string{
			"reference model = the library's own code on fresh objects in a fresh process, one frame at a time; a defect identical in every fresh world is by construction not a history property",
			"error text is never compared",
		},
	}
	writeEvidence(ev)
	logf("C10: %d histories, %d ops, %d frames judged, %d known-finding signatures, %d violations, %.1fs", N, nOps, nFrames, len(knownMatched), nViol, w.secs())
	return exit
}

// checkDeterminism re-executes a sample of references with different
// GOMAXPROCS / GOGC and demands byte-identical results (I3).
func checkDeterminism(b *Build, rc *refCache, o checkOpts, findings []Finding) (int, []Violation) {
	keys := make([]string, 0, len(rc.m))
	for k := range rc.m {
		keys = append(keys, k)
	}
	sort.Strings(keys)
	step := 10
	if o.tier == "thorough" {
		step = 20
	}
	var sample []string
	for i := 0; i < len(keys); i += step {
		sample = append(sample, keys[i])
	}
	viols := make([]*Violation, len(sample))
	parallel(len(sample), o.procs, func(i int) {
		e := rc.m[sample[i]]
		if e.err != nil {
			return
		}
		run := soloRun(e.op, rc.stepCap)
		run.Gomaxprocs = []int{1, 3, 16}[i%3]
		dir := filepath.Join(b.Scratch, fmt.Sprintf("det-%d", i))
		res, _, err := b.execInfo("plain", &run, dir, 5*time.Minute, "GOGC="+[]string{"off", "10", "400"}[i%3])
		os.RemoveAll(dir)
		if err != nil || len(res.Tasks) != 1 || len(res.Tasks[0]) != 1 {
			return
		}
		got := &res.Tasks[0][0]
		// (step counts are deliberately not compared: they are not outputs, and a library that
		// parallelises internally may legitimately take a different number of steps)
		if got.Err != e.res.Err || !framesEqual(got.Out, e.res.Out) {
			viols[i] = &Violation{Prop: "C10", Class: "I3", Sig: fmt.Sprintf("I3-nondeterministic: %s %s", e.op.Kind, opTarget(&e.op)),
				Detail: fmt.Sprintf("the same operation alone in two fresh processes (GOMAXPROCS %d vs default) gave different results (steps %d vs %d)", run.Gomaxprocs, got.Steps, e.res.Steps),
				Run:    run, Build: "plain"}
		}
	})
	var out []Violation
	for _, v := range viols {
		if v != nil {
			out = append(out, *v)
		}
	}
	return len(sample), out
}

// hasSigC10 re-executes a history and reports whether the signature recurs.
func hasSigC10(b *Build, run *spec.Run, rc *refCache, sig string) (bool, string) {
	if run.Mode == "solo" {
		// I3 replay: run twice, compare
		d1 := filepath.Join(b.Scratch, fmt.Sprintf("i3a-%d", atomic.AddInt64(&c10Seq, 1)))
		d2 := filepath.Join(b.Scratch, fmt.Sprintf("i3b-%d", atomic.AddInt64(&c10Seq, 1)))
		defer os.RemoveAll(d1)
		defer os.RemoveAll(d2)
		r2 := *run
		r2.Gomaxprocs = 0
		a, e1 := b.exec("plain", run, d1, 5*time.Minute)
		c, e2 := b.exec("plain", &r2, d2, 5*time.Minute)
		if e1 != nil || e2 != nil {
			return false, ""
		}
		x, y := &a.Tasks[0][0], &c.Tasks[0][0]
		return x.Err != y.Err || !framesEqual(x.Out, y.Out), ""
	}
	res, info, err := runHistory(b, run)
	if err != nil {
		if strings.HasPrefix(sig, "fatal:") && strings.Contains(info.Stderr, "fatal error") {
			return true, ""
		}
		return false, ""
	}
	rc.fill(neededRefs(run, res), 8)
	out := judgeHistory(run, res, rc)
	for _, v := range out.viols {
		if v.Sig == sig {
			return true, v.Detail
		}
	}
	return false, ""
}

// minimiseC10 drops operations (keeping From links consistent), then frames.
func minimiseC10(b *Build, v Violation, rc *refCache) (Violation, string) {
	cur := cloneRun(&v.Run)
	from := fmt.Sprintf("%d ops", countOps(&cur))
	if cur.Mode == "solo" {
		return v, from
	}
	budget := 50
	try := func(c *spec.Run) (bool, string) {
		if budget <= 0 {
			return false, ""
		}
		budget--
		return hasSigC10(b, c, rc, v.Sig)
	}
	if ok, _ := try(&cur); !ok {
		v.Notes = append(v.Notes, "minimiser: the original history did not reproduce on re-execution; reported unminimised")
		return v, from
	}
	// drop one operation at a time (last first); an op that others read From cannot go
	for i := len(cur.Tasks[0].Ops) - 1; i >= 0; i-- {
		ops := cur.Tasks[0].Ops
		used := false
		for _, o := range ops {
			if o.From == i {
				used = true
			}
		}
		if used || len(ops) <= 1 {
			continue
		}
		c := cloneRun(&cur)
		nops := append([]spec.Op(nil), ops[:i]...)
		for _, o := range ops[i+1:] {
			if o.From > i {
				o.From--
			}
			nops = append(nops, o)
		}
		c.Tasks[0].Ops = nops
		if ok, d := try(&c); ok {
			cur = c
			if d != "" {
				v.Detail = d
			}
		}
	}
	// drop trailing frames of generator-fed operations
	for oi := range cur.Tasks[0].Ops {
		for len(cur.Tasks[0].Ops[oi].Frames) > 1 && len(cur.Tasks[0].Ops[oi].SrcFaults) == 0 {
			c := cloneRun(&cur)
			f := c.Tasks[0].Ops[oi].Frames
			c.Tasks[0].Ops[oi].Frames = append([]spec.Frame(nil), f[:len(f)-1]...)
			dependentSel := false
			for _, o := range c.Tasks[0].Ops {
				if o.From == oi && len(o.FromSel) > 0 {
					dependentSel = true
				}
			}
			if dependentSel {
				break
			}
			ok, d := try(&c)
			if !ok {
				break
			}
			cur = c
			if d != "" {
				v.Detail = d
			}
		}
	}
	v.Run = cur
	v.Notes = append(v.Notes, fmt.Sprintf("minimised to %d ops", countOps(&cur)))
	return v, from
}

func reproduceC10(b *Build, v *Violation, rc *refCache, n int) string {
	ok := 0
	for i := 0; i < n; i++ {
		if r, _ := hasSigC10(b, &v.Run, rc, v.Sig); r {
			ok++
		}
	}
	return fmt.Sprintf("%d/%d", ok, n)
}

func replayC10(rp *spec.Replay) bool {
	b := NewBuild("plain")
	rc := newRefCache(b, "plain")
	ok, d := hasSigC10(b, &rp.Run, rc, rp.Signature)
	if ok && d != "" {
		fmt.Println("  " + d)
	}
	return ok
}
