package main

import (
	"bytes"
	"context"
	"encoding/json"
	"fmt"
	"os"
	"os/exec"
	"path/filepath"
	"strings"
	"syscall"
	"time"

	"verif/sim/spec"
)

// execResult is everything one worker process left behind.
type execInfo struct {
	ExitCode int
	Stderr   string
	RaceLog  string
	TimedOut bool
	WallS    float64
}

// exec runs one worker process on one Run. dir is a private directory for the
// process's artefacts (created; the caller removes it).
func (b *Build) exec(variant string, r *spec.Run, dir string, timeout time.Duration) (*spec.Result, error) {
	res, info, err := b.execInfo(variant, r, dir, timeout)
	if err != nil {
		return nil, fmt.Errorf("%v (exit=%d stderr=%s)", err, info.ExitCode, tail(info.Stderr, 2000))
	}
	return res, nil
}

func tail(s string, n int) string {
	if len(s) > n {
		return "…" + s[len(s)-n:]
	}
	return s
}

func (b *Build) execInfo(variant string, r *spec.Run, dir string, timeout time.Duration, extraEnv ...string) (*spec.Result, execInfo, error) {
	var info execInfo
	bin := b.Bins[variant]
	if bin == "" {
		return nil, info, fmt.Errorf("variant %s not built", variant)
	}
	if err := os.MkdirAll(dir, 0o755); err != nil {
		return nil, info, err
	}
	in := filepath.Join(dir, "run.json")
	out := filepath.Join(dir, "result.json")
	data, _ := json.Marshal(r)
	if err := os.WriteFile(in, data, 0o644); err != nil {
		return nil, info, err
	}
	if timeout == 0 {
		timeout = 10 * time.Minute
	}
	ctx, cancel := context.WithTimeout(context.Background(), timeout)
	defer cancel()
	cmd := exec.CommandContext(ctx, bin, "run", in, out, b.Repo)
	cmd.Dir = dir
	cmd.SysProcAttr = &syscall.SysProcAttr{Pdeathsig: syscall.SIGKILL}
	env := []string{}
	for _, kv := range os.Environ() {
		if strings.HasPrefix(kv, "GORACE=") || strings.HasPrefix(kv, "GOMAXPROCS=") || strings.HasPrefix(kv, "GOGC=") || strings.HasPrefix(kv, "GOTRACEBACK=") {
			continue
		}
		env = append(env, kv)
	}
	env = append(env, "GORACE=halt_on_error=0 history_size=7 log_path="+filepath.Join(dir, "race"), "GOTRACEBACK=all")
	env = append(env, extraEnv...)
	cmd.Env = env
	var stderr bytes.Buffer
	cmd.Stderr = &stderr
	cmd.Stdout = &stderr
	t0 := time.Now()
	err := cmd.Run()
	info.WallS = time.Since(t0).Seconds()
	info.Stderr = stderr.String()
	if ctx.Err() == context.DeadlineExceeded {
		info.TimedOut = true
	}
	if cmd.ProcessState != nil {
		info.ExitCode = cmd.ProcessState.ExitCode()
	}
	// race logs: race.<pid>
	if ms, _ := filepath.Glob(filepath.Join(dir, "race.*")); len(ms) > 0 {
		var sb strings.Builder
		for _, m := range ms {
			d, _ := os.ReadFile(m)
			sb.Write(d)
		}
		info.RaceLog = sb.String()
	}
	resData, rerr := os.ReadFile(out)
	if rerr != nil {
		if err == nil {
			err = rerr
		}
		return nil, info, fmt.Errorf("worker produced no result: %v", err)
	}
	var res spec.Result
	if jerr := json.Unmarshal(resData, &res); jerr != nil {
		return nil, info, jerr
	}
	// exit code 66 = race detector found races (halt_on_error=0); that is data, not failure
	return &res, info, nil
}
