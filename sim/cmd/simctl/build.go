package main

import (
	"bytes"
	"crypto/sha256"
	"encoding/hex"
	"encoding/json"
	"fmt"
	"os"
	"os/exec"
	"path/filepath"
	"strings"
	"sync"
	"syscall"
	"time"

	"verif/sim/instr"
)

const repoModule = "github.com/cocosip/go-dicom-codecs"

var (
	verifHome = findHome()
	repoDir   = envOr("VERIF_REPO", "/repo")
	goBinDir  = envOr("VERIF_GOBIN", "/opt/veriftools/go1.26.8/bin")
)

func envOr(k, d string) string {
	if v := os.Getenv(k); v != "" {
		return v
	}
	return d
}

func findHome() string {
	if v := os.Getenv("VERIF_HOME"); v != "" {
		return v
	}
	try := func(start string) string {
		d := start
		for i := 0; i < 6 && d != "/" && d != ""; i++ {
			if _, err := os.Stat(filepath.Join(d, "sim", "go.mod")); err == nil {
				return d
			}
			d = filepath.Dir(d)
		}
		return ""
	}
	if exe, err := os.Executable(); err == nil {
		if h := try(filepath.Dir(exe)); h != "" {
			return h
		}
	}
	if wd, err := os.Getwd(); err == nil {
		if h := try(wd); h != "" {
			return h
		}
	}
	return "/verif"
}

func goEnv() []string {
	env := []string{}
	for _, kv := range os.Environ() {
		if strings.HasPrefix(kv, "PATH=") || strings.HasPrefix(kv, "GOFLAGS=") || strings.HasPrefix(kv, "GOPROXY=") ||
			strings.HasPrefix(kv, "GOSUMDB=") || strings.HasPrefix(kv, "GOTOOLCHAIN=") || strings.HasPrefix(kv, "GO111MODULE=") ||
			strings.HasPrefix(kv, "GOWORK=") {
			continue
		}
		env = append(env, kv)
	}
	env = append(env, "PATH="+goBinDir+":"+os.Getenv("PATH"), "GOFLAGS=-mod=mod", "GOPROXY=off", "GOSUMDB=off",
		"GOTOOLCHAIN=local", "GOWORK=off")
	return env
}

// Build is one instrumented scratch copy and the worker binaries built from it.
type Build struct {
	Scratch string
	Repo    string
	Table   *instr.Table
	Bins    map[string]string
	Tree    string
	BuildS  float64
	hot     map[uint32]instr.Site
}

// infraFail reports an infrastructure problem: exit 2, never a VIOLATION.
func infraFail(format string, a ...interface{}) {
	fmt.Fprintf(os.Stderr, "INFRA: "+format+"\n", a...)
	cleanupAll()
	os.Exit(2)
}

var (
	cleanMu  sync.Mutex
	cleanups []func()
)

func onExit(f func()) {
	cleanMu.Lock()
	cleanups = append(cleanups, f)
	cleanMu.Unlock()
}

func cleanupAll() {
	cleanMu.Lock()
	fs := cleanups
	cleanups = nil
	cleanMu.Unlock()
	for i := len(fs) - 1; i >= 0; i-- {
		fs[i]()
	}
}

func run(dir string, env []string, name string, args ...string) (string, error) {
	cmd := exec.Command(name, args...)
	cmd.Dir = dir
	cmd.Env = env
	var out bytes.Buffer
	cmd.Stdout, cmd.Stderr = &out, &out
	err := cmd.Run()
	return out.String(), err
}

func treeFingerprint() string {
	head, _ := run(repoDir, os.Environ(), "git", "rev-parse", "--short", "HEAD")
	diff, _ := run(repoDir, os.Environ(), "git", "diff", "HEAD", "--", ".", ":(exclude)cmd/dicom-interop-validation/fixtures")
	s := strings.TrimSpace(head)
	if strings.TrimSpace(diff) != "" {
		h := sha256.Sum256([]byte(diff))
		s += "+dirty:" + hex.EncodeToString(h[:4])
	}
	return s
}

// NewBuild copies /repo's working tree, instruments it and builds the worker in
// the requested variants: "race" (-tags verif -race), "plain" (-tags verif),
// "noinstr" (hooks compiled out).
func NewBuild(variants ...string) *Build {
	t0 := time.Now()
	base := os.Getenv("TMPDIR")
	if base == "" {
		base = "/tmp"
	}
	removeStaleScratch(base)
	scratch, err := os.MkdirTemp(base, "verif-scratch.")
	if err != nil {
		infraFail("mkdtemp: %v", err)
	}
	os.WriteFile(filepath.Join(scratch, "owner.pid"), []byte(fmt.Sprint(os.Getpid())), 0o644)
	onExit(func() { os.RemoveAll(scratch) })
	b := &Build{Scratch: scratch, Repo: filepath.Join(scratch, "repo"), Bins: map[string]string{}, Tree: treeFingerprint()}
	if out, err := run("/", os.Environ(), "rsync", "-a", "--exclude=.git", "--exclude=/examples", "--exclude=/cmd", "--exclude=/_mut",
		"--exclude=*_test.go", repoDir+"/", b.Repo+"/"); err != nil {
		infraFail("rsync: %v\n%s", err, out)
	}
	env := goEnv()
	// the copy must build before it is touched (otherwise the tree itself is broken)
	tab, err := instr.Instrument(b.Repo, repoModule, env)
	if err != nil {
		infraFail("instrument: %v", err)
	}
	b.Table = tab
	b.hot = map[uint32]instr.Site{}
	for _, s := range tab.Sites {
		if s.Hot != "" {
			b.hot[s.ID] = s
		}
	}
	// hook runtime
	rtDst := filepath.Join(b.Repo, "verifrt")
	os.MkdirAll(rtDst, 0o755)
	ents, err := os.ReadDir(filepath.Join(verifHome, "sim", "rt"))
	if err != nil {
		infraFail("read rt: %v", err)
	}
	for _, e := range ents {
		if strings.HasSuffix(e.Name(), ".go") {
			data, _ := os.ReadFile(filepath.Join(verifHome, "sim", "rt", e.Name()))
			os.WriteFile(filepath.Join(rtDst, e.Name()), data, 0o644)
		}
	}
	os.MkdirAll(filepath.Join(rtDst, "vsync"), 0o755)
	if vs, err := os.ReadDir(filepath.Join(verifHome, "sim", "rt", "vsync")); err == nil {
		for _, e := range vs {
			data, _ := os.ReadFile(filepath.Join(verifHome, "sim", "rt", "vsync", e.Name()))
			os.WriteFile(filepath.Join(rtDst, "vsync", e.Name()), data, 0o644)
		}
	}
	os.WriteFile(filepath.Join(rtDst, "sites_gen.go"),
		[]byte(fmt.Sprintf("package verifrt\n\n// NumSites is the number of instrumentation sites in this copy.\nconst NumSites = %d\n", len(tab.Sites))), 0o644)
	tj, _ := json.Marshal(tab)
	os.WriteFile(filepath.Join(scratch, "sites.json"), tj, 0o644)

	// module file for the worker build
	simMod, err := os.ReadFile(filepath.Join(verifHome, "sim", "go.mod"))
	if err != nil {
		infraFail("read sim/go.mod: %v", err)
	}
	mod := string(simMod) + fmt.Sprintf("\nrequire %s v0.0.0\nrequire github.com/cocosip/go-dicom v0.6.0\nreplace %s => %s\n", repoModule, repoModule, b.Repo)
	modPath := filepath.Join(scratch, "worker.mod")
	os.WriteFile(modPath, []byte(mod), 0o644)
	sum1, _ := os.ReadFile(filepath.Join(verifHome, "sim", "go.sum"))
	sum2, _ := os.ReadFile(filepath.Join(repoDir, "go.sum"))
	os.WriteFile(filepath.Join(scratch, "worker.sum"), append(append(sum1, '\n'), sum2...), 0o644)

	var wg sync.WaitGroup
	errs := make([]string, len(variants))
	for i, v := range variants {
		wg.Add(1)
		go func(i int, v string) {
			defer wg.Done()
			bin := filepath.Join(scratch, "simworker-"+v)
			args := []string{"build", "-modfile=" + modPath, "-o", bin}
			switch v {
			case "race":
				args = append(args, "-tags", "verif", "-race")
			case "plain":
				args = append(args, "-tags", "verif")
			case "noinstr":
			}
			args = append(args, "./cmd/simworker")
			out, err := run(filepath.Join(verifHome, "sim"), env, "go", args...)
			if err != nil {
				errs[i] = fmt.Sprintf("go %s: %v\n%s", strings.Join(args, " "), err, out)
				return
			}
			b.Bins[v] = bin
		}(i, v)
	}
	wg.Wait()
	for _, e := range errs {
		if e != "" {
			infraFail("worker build failed (instrumented copy of the current tree does not compile):\n%s", e)
		}
	}
	// self-check: hooks are in
	for v, bin := range b.Bins {
		out, err := run(scratch, os.Environ(), bin, "hello", "-", "-", b.Repo)
		if err != nil {
			infraFail("worker %s hello failed: %v\n%s", v, err, out)
		}
		wantEnabled := v != "noinstr"
		if !strings.Contains(out, fmt.Sprintf("\"enabled\":%v", wantEnabled)) || !strings.Contains(out, "\"codecs\":14") {
			infraFail("worker %s self-check: unexpected %s", v, out)
		}
	}
	b.BuildS = time.Since(t0).Seconds()
	return b
}

func (b *Build) Close() { os.RemoveAll(b.Scratch) }

// siteName renders a site for humans.
func (b *Build) siteName(id uint32) string {
	if int(id) < len(b.Table.Sites) {
		s := b.Table.Sites[id]
		return fmt.Sprintf("%s:%d(%s %s)", s.File, s.Line, s.Fn, s.Kind)
	}
	return fmt.Sprintf("site%d", id)
}

// removeStaleScratch deletes scratch directories whose owning simctl is gone
// (a killed check cannot run its own cleanup).
func removeStaleScratch(base string) {
	ms, _ := filepath.Glob(filepath.Join(base, "verif-scratch.*"))
	for _, m := range ms {
		data, err := os.ReadFile(filepath.Join(m, "owner.pid"))
		if err != nil {
			if st, e := os.Stat(m); e == nil && time.Since(st.ModTime()) > 10*time.Minute {
				os.RemoveAll(m)
			}
			continue
		}
		var pid int
		fmt.Sscan(string(data), &pid)
		if pid > 0 {
			if err := syscallKill0(pid); err != nil {
				os.RemoveAll(m)
			}
		}
	}
}

func syscallKill0(pid int) error { return syscall.Kill(pid, 0) }
