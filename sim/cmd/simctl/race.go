package main

import (
	"fmt"
	"regexp"
	"sort"
	"strings"
)

// raceAccess is one side of a ThreadSanitizer report.
type raceAccess struct {
	Write bool
	Fn    string // first repository frame: package.func (module prefix trimmed)
	Loc   string // file:line, repository-relative
	Top   string // top-most frame of any origin (for diagnostics)
}

type raceReport struct {
	A, B raceAccess
	Raw  string
}

var (
	reAccess = regexp.MustCompile(`^(Previous )?(read|write|atomic read|atomic write|Read|Write) at 0x[0-9a-f]+ by (main goroutine|goroutine \d+):`)
	reLoc    = regexp.MustCompile(`^\s+(\S+\.go):(\d+)`)
)

// parseRaceLog splits a GORACE log into reports and normalises each access to
// its first repository frame (DESIGN §3.3 oracle 1).
func parseRaceLog(log, scratchRepo string) []raceReport {
	var out []raceReport
	blocks := strings.Split(log, "==================")
	for _, blk := range blocks {
		if !strings.Contains(blk, "WARNING: DATA RACE") {
			continue
		}
		lines := strings.Split(blk, "\n")
		var accs []raceAccess
		for i := 0; i < len(lines); i++ {
			m := reAccess.FindStringSubmatch(strings.TrimSpace(lines[i]))
			if m == nil {
				continue
			}
			acc := raceAccess{Write: strings.Contains(strings.ToLower(m[2]), "write")}
			// frames follow: "  func()" then "      file:line +0x.."
			for j := i + 1; j+1 < len(lines); j += 2 {
				fn := strings.TrimSpace(lines[j])
				if fn == "" {
					break
				}
				if strings.HasPrefix(fn, "[failed to restore the stack]") {
					break
				}
				lm := reLoc.FindStringSubmatch(lines[j+1])
				if lm == nil {
					break
				}
				fn = strings.TrimSuffix(fn, "()")
				if acc.Top == "" {
					acc.Top = fn
				}
				if acc.Fn == "" && strings.HasPrefix(fn, repoModule+"/") && !strings.Contains(fn, "/verifrt.") {
					acc.Fn = strings.TrimPrefix(fn, repoModule+"/")
					f := lm[1]
					if strings.HasPrefix(f, scratchRepo) {
						f = strings.TrimPrefix(strings.TrimPrefix(f, scratchRepo), "/")
					}
					acc.Loc = f + ":" + lm[2]
				}
			}
			accs = append(accs, acc)
			if len(accs) == 2 {
				break
			}
		}
		if len(accs) == 2 {
			out = append(out, raceReport{A: accs[0], B: accs[1], Raw: blk})
		} else if len(accs) == 1 {
			out = append(out, raceReport{A: accs[0], B: raceAccess{}, Raw: blk})
		}
	}
	return out
}

func (a raceAccess) side(withLine bool) string {
	k := "R"
	if a.Write {
		k = "W"
	}
	fn := a.Fn
	if fn == "" {
		fn = "?"
		if a.Top != "" {
			fn = "?(" + a.Top + ")"
		}
	}
	if withLine && a.Loc != "" {
		return fmt.Sprintf("%s %s@%s", k, fn, a.Loc)
	}
	return fmt.Sprintf("%s %s", k, fn)
}

// sig is the unordered pair of (R/W, first repository function).
func (r raceReport) sig() string {
	s := []string{r.A.side(false), r.B.side(false)}
	sort.Strings(s)
	return "race: " + s[0] + " | " + s[1]
}

func (r raceReport) detail() string {
	s := []string{r.A.side(true), r.B.side(true)}
	sort.Strings(s)
	return s[0] + " | " + s[1]
}

// hasRepoFrame reports whether either side names repository code.
func (r raceReport) hasRepoFrame() bool { return r.A.Fn != "" || r.B.Fn != "" }
