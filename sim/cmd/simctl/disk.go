package main

import (
	"context"
	"encoding/binary"
	"encoding/json"
	"fmt"
	"os"
	"os/exec"
	"path/filepath"
	"sort"
	"strings"
	"sync/atomic"
	"syscall"
	"time"

	"verif/sim/spec"
)

// runBatchWorker runs `simworker <mode> cfg out` and returns the raw result bytes.
func (b *Build) runBatchWorker(variant, mode string, cfg interface{}, dir string, timeout time.Duration) ([]byte, string, error) {
	os.MkdirAll(dir, 0o755)
	in := filepath.Join(dir, "cfg.json")
	out := filepath.Join(dir, "out.json")
	os.Remove(out)
	data, _ := json.Marshal(cfg)
	os.WriteFile(in, data, 0o644)
	ctx, cancel := context.WithTimeout(context.Background(), timeout)
	defer cancel()
	cmd := exec.CommandContext(ctx, b.Bins[variant], mode, in, out, b.Repo)
	cmd.Dir = dir
	cmd.SysProcAttr = &syscall.SysProcAttr{Pdeathsig: syscall.SIGKILL}
	cmd.Env = append(os.Environ(), "GOTRACEBACK=single", "GOMAXPROCS=1")
	var stderr strings.Builder
	cmd.Stderr, cmd.Stdout = &stderr, &stderr
	err := cmd.Run()
	res, rerr := os.ReadFile(out)
	if rerr != nil {
		if err == nil {
			err = rerr
		}
		if ctx.Err() == context.DeadlineExceeded {
			err = fmt.Errorf("watchdog: %v", err)
		}
		return nil, stderr.String(), err
	}
	return res, stderr.String(), nil
}

// caseToRun converts an explicit case into a solo run (the replay form).
func caseToRun(c *spec.DiskCase, stepCap uint64) spec.Run {
	op := spec.Op{From: -1, Info: c.Info, Frames: []spec.Frame{{Lit: c.Data, IsLit: true}}, Params: spec.Params{Mode: "nil"}}
	if c.Op != nil {
		op = *c.Op
	} else if strings.HasPrefix(c.Entry, "pkg:") {
		op.Kind, op.Target = "pkgdec", c.Entry[4:]
	} else {
		op.Kind, op.TS = "dec", strings.TrimPrefix(c.Entry, "codec:")
	}
	return spec.Run{Mode: "solo", Tasks: []spec.Task{{Ops: []spec.Op{op}}}, StepCap: stepCap, AllocCap: 768 << 20}
}

func runToCase(r *spec.Run) spec.DiskCase {
	op := r.Tasks[0].Ops[0]
	c := spec.DiskCase{Info: op.Info}
	if len(op.Frames) > 0 {
		c.Data = op.Frames[0].Lit
	}
	if op.Kind == "pkgdec" {
		c.Entry = "pkg:" + op.Target
	} else {
		c.Entry = "codec:" + op.TS
	}
	return c
}

var diskSeq int64

// panicSigOf runs an explicit case alone and returns the panic signature ("" if none).
func (b *Build) panicSigOf(r *spec.Run) (string, *spec.OpResult) {
	dir := filepath.Join(b.Scratch, fmt.Sprintf("case-%d", atomic.AddInt64(&diskSeq, 1)))
	defer os.RemoveAll(dir)
	res, info, err := b.execInfo("plain", r, dir, 3*time.Minute)
	if err != nil {
		if info.TimedOut {
			return "fatal: case did not finish within the watchdog", nil
		}
		if strings.Contains(info.Stderr, "fatal error") || info.ExitCode != 0 {
			return "fatal: " + firstLineWith(info.Stderr, "fatal error"), nil
		}
		return "", nil
	}
	or := &res.Tasks[0][0]
	if or.Panic != "" && !strings.HasPrefix(or.PanicKind, "sentinel-") {
		return fmt.Sprintf("panic: %s [%s]", or.PanicFn, or.PanicKind), or
	}
	return "", or
}

// minimiseBytes shrinks the byte string of an explicit case while the same
// signature persists: shortest failing prefix, then zeroing of the tail.
func minimiseBytes(b *Build, v *Violation, sigOf func(*spec.Run) string) {
	op := &v.Run.Tasks[0].Ops[0]
	if len(op.Frames) != 1 {
		return
	}
	data := op.Frames[0].Lit
	orig := len(data)
	test := func(d []byte) bool {
		r := cloneRun(&v.Run)
		r.Tasks[0].Ops[0].Frames = []spec.Frame{{Lit: d, IsLit: true}}
		return sigOf(&r) == v.Sig
	}
	budget := 24
	lo, hi := 0, len(data) // smallest n with test(data[:n]) — not monotone in general, so verify
	for lo < hi && budget > 0 {
		mid := (lo + hi) / 2
		budget--
		if test(data[:mid]) {
			hi = mid
		} else {
			lo = mid + 1
		}
	}
	if hi < len(data) && test(data[:hi]) {
		data = append([]byte(nil), data[:hi]...)
	}
	op.Frames = []spec.Frame{{Lit: data, IsLit: true}}
	if len(data) != orig {
		v.Notes = append(v.Notes, fmt.Sprintf("minimised input from %d to %d bytes", orig, len(data)))
	}
}

type diskAgg struct {
	cases, enumerated, sampled, steps, distinct uint64
	skipped, faults, entries, outcomes, probes  map[string]uint64
	entryMs                                     map[string]float64
	findings                                    map[string]*spec.DiskFinding
	corpus                                      []string
	samples                                     []spec.DiskCase
	slowest                                     float64
	fatalCases                                  []spec.DiskCase
	restarts                                    int
}

func addMap(dst, src map[string]uint64) {
	for k, v := range src {
		dst[k] += v
	}
}

func (a *diskAgg) merge(r *spec.DiskResult) {
	a.cases += r.Cases
	a.enumerated += r.Enumerated
	a.sampled += r.Sampled
	a.steps += r.Steps
	a.distinct += r.DistinctIn
	addMap(a.skipped, r.Skipped)
	addMap(a.faults, r.FaultCounts)
	addMap(a.entries, r.EntryCounts)
	addMap(a.outcomes, r.Outcomes)
	addMap(a.probes, r.Probes)
	for k, v := range r.EntryMs {
		a.entryMs[k] += v
	}
	if r.SlowestMs > a.slowest {
		a.slowest = r.SlowestMs
	}
	if len(a.corpus) == 0 {
		a.corpus = r.Corpus
	}
	if len(a.samples) < 4 {
		a.samples = append(a.samples, r.Samples...)
	}
	for i := range r.Findings {
		f := r.Findings[i]
		if old, ok := a.findings[f.Sig]; ok {
			old.Count += f.Count
			for _, e := range f.Entries {
				dup := false
				for _, x := range old.Entries {
					if x == e {
						dup = true
					}
				}
				if !dup {
					old.Entries = append(old.Entries, e)
				}
			}
			alt, altv := append(old.Alt, f.Alt...), append(old.AltVal, f.AltVal...)
			if len(f.Case.Data) < len(old.Case.Data) {
				cnt, ents := old.Count, old.Entries
				*old = f
				old.Count, old.Entries = cnt, ents
			}
			old.Alt, old.AltVal = alt, altv
		} else {
			a.findings[f.Sig] = &f
		}
	}
}

// runShard drives one shard to completion, restarting after process-fatal cases.
func runShard(b *Build, mode string, base spec.DiskCfg, shard int, agg chan<- *spec.DiskResult, fatals chan<- spec.DiskCase, restarts *int64) error {
	cfg := base
	cfg.Shard = shard
	cfg.Only = -1
	dir := filepath.Join(b.Scratch, fmt.Sprintf("disk-%s-%d", base.Prop, shard))
	cfg.Journal = filepath.Join(dir, "journal")
	os.MkdirAll(dir, 0o755)
	defer os.RemoveAll(dir)
	for attempt := 0; attempt < 40; attempt++ {
		raw, stderr, err := b.runBatchWorker("plain", mode, &cfg, dir, 3*time.Hour)
		if err == nil {
			var r spec.DiskResult
			if jerr := json.Unmarshal(raw, &r); jerr != nil {
				return jerr
			}
			agg <- &r
			return nil
		}
		// the process died: attribute through the journal
		j, jerr := os.ReadFile(cfg.Journal)
		if jerr != nil || len(j) < 16 || binary.LittleEndian.Uint64(j[8:]) != 1 {
			return fmt.Errorf("shard %d died outside a case: %v\n%s", shard, err, tail(stderr, 1500))
		}
		idx := binary.LittleEndian.Uint64(j[0:])
		atomic.AddInt64(restarts, 1)
		// re-run that one case alone to obtain its explicit bytes
		one := base
		one.Shard, one.Only = shard, int64(idx)
		one.Journal = filepath.Join(dir, "journal-one")
		oneDir := filepath.Join(dir, "one")
		raw1, _, _ := b.runBatchWorker("plain", mode, &one, oneDir, 10*time.Minute)
		var c spec.DiskCase
		c.Index = idx
		if raw1 != nil {
			var r1 spec.DiskResult
			if json.Unmarshal(raw1, &r1) == nil && r1.ExplicitOne != nil {
				c = *r1.ExplicitOne
			}
		}
		c.Faults = append(c.Faults, "process-fatal: "+firstLineWith(stderr, "fatal error"))
		fatals <- c
		// note: the partial counters of the dead process are lost; the shard resumes after the fatal case
		cfg.StartAt = idx + 1
	}
	return fmt.Errorf("shard %d: too many process-fatal cases", shard)
}

// cpuCertifyS is the CPU time above which a time violation is certified. The property's
// bound is 10 s of wall time; CPU time of a single-threaded child under-estimates wall time,
// but on a loaded machine it inflates by a factor of up to ~2-3 (measured here: the same
// decode took 6.9 s unloaded and 17.4 s with 60 runnable processes). A check that flaps
// with machine load is worse than one that leaves the 10-25 s band to the evidence file.
const cpuCertifyS = 25.0

// confirm runs C09 stage 2 for one explicit case; returns whether the
// property's own numbers are exceeded, and a description.
func confirmC09(b *Build, c *spec.DiskCase, kind string) (bool, string) {
	dir := filepath.Join(b.Scratch, fmt.Sprintf("confirm-%d", atomic.AddInt64(&diskSeq, 1)))
	defer os.RemoveAll(dir)
	raw, stderr, err := b.runBatchWorker("noinstr", "confirm", c, dir, 100*time.Second)
	var S uint64
	if w, h, comps, ok := declaredGo(c); ok {
		S = w * h * comps
	}
	B := uint64(512<<20) + 64*S
	if err != nil {
		if strings.Contains(stderr, "out of memory") || strings.Contains(stderr, "cannot allocate memory") {
			return true, "the un-instrumented child aborted with out-of-memory under RLIMIT_AS = budget + 3 GiB: " + firstLineWith(stderr, "out of memory")
		}
		if strings.Contains(err.Error(), "watchdog") {
			return true, "the un-instrumented single-threaded child did not finish within 100 s"
		}
		if strings.Contains(stderr, "stack overflow") || strings.Contains(stderr, "goroutine stack exceeds") {
			return true, "the un-instrumented child died of stack exhaustion"
		}
		return false, "confirmation child failed for another reason: " + tail(stderr, 300)
	}
	var r spec.ConfirmResult
	if json.Unmarshal(raw, &r) != nil {
		return false, "unreadable confirmation result"
	}
	desc := fmt.Sprintf("cpu=%.2fs wall=%.2fs peak-live-heap=%d peak-heap=%d budget=%d outcome=%s", r.CPUSeconds, r.WallS, r.PeakLive, r.PeakHeap, B, r.Outcome)
	switch {
	case r.CPUSeconds > cpuCertifyS:
		return true, fmt.Sprintf("CPU time above %.0f s (the property's 10 s bound with a 2.5x margin for machine load): %s", cpuCertifyS, desc)
	case r.CPUSeconds > 10:
		return false, "BORDERLINE (CPU time between 10 s and the certification threshold; not reported): " + desc
	case r.PeakLive > B:
		return true, "live heap above 512 MiB + 64*S: " + desc
	case kind == "budget-heap" && r.PeakHeap > B+B/2 && r.HeapSys > B+B/2:
		return true, fmt.Sprintf("heap in use above 1.5 x (512 MiB + 64*S) although the sampler caught no live sample (peak HeapAlloc %d, heap obtained from the OS %d): %s", r.PeakHeap, r.HeapSys, desc)
	case kind == "budget-alloc" && r.HeapSys > B && r.TotalAlloc > B:
		return true, fmt.Sprintf("a single allocation request above 512 MiB + 64*S was made and succeeded (heap obtained from the OS %d, allocated during the call %d): %s", r.HeapSys, r.TotalAlloc, desc)
	}
	return false, desc
}

// declaredGo mirrors the worker's independent header parser for the budget formula.
func declaredGo(c *spec.DiskCase) (w, h, comps uint64, ok bool) {
	if c.Entry == "codec:rle" {
		return uint64(c.Info.W), uint64(c.Info.H), uint64(c.Info.SPP), true
	}
	d := c.Data
	if len(d) >= 4 && d[0] == 0xFF && d[1] == 0x4F {
		for i := 2; i+4 <= len(d); {
			if d[i] != 0xFF {
				return
			}
			l := int(binary.BigEndian.Uint16(d[i+2:]))
			if d[i+1] == 0x51 && i+40 <= len(d) {
				p := d[i+4:]
				xs, ys := uint64(binary.BigEndian.Uint32(p[2:])), uint64(binary.BigEndian.Uint32(p[6:]))
				xo, yo := uint64(binary.BigEndian.Uint32(p[10:])), uint64(binary.BigEndian.Uint32(p[14:]))
				if xs < xo || ys < yo {
					return xs, ys, uint64(binary.BigEndian.Uint16(p[34:])), true
				}
				return xs - xo, ys - yo, uint64(binary.BigEndian.Uint16(p[34:])), true
			}
			if l < 2 {
				return
			}
			i += 2 + l
		}
		return
	}
	if len(d) >= 4 && d[0] == 0xFF && d[1] == 0xD8 {
		for i := 2; i+4 <= len(d); {
			if d[i] != 0xFF {
				i++
				continue
			}
			m := d[i+1]
			if m == 0xFF {
				i++
				continue
			}
			if m == 0 || m == 1 || (m >= 0xD0 && m <= 0xD8) {
				i += 2
				continue
			}
			if m == 0xD9 || m == 0xDA {
				return
			}
			l := int(binary.BigEndian.Uint16(d[i+2:]))
			if ((m >= 0xC0 && m <= 0xCF && m != 0xC4 && m != 0xC8 && m != 0xCC) || m == 0xF7) && i+10 <= len(d) {
				p := d[i+4:]
				return uint64(binary.BigEndian.Uint16(p[3:])), uint64(binary.BigEndian.Uint16(p[1:])), uint64(p[5]), true
			}
			if l < 2 {
				return
			}
			i += 2 + l
		}
	}
	return
}

func checkDisk(o checkOpts, prop string) int {
	w := startWatch()
	variants := []string{"plain"}
	if prop == "C09" {
		variants = append(variants, "noinstr")
	}
	b := NewBuild(variants...)
	logf("%s: VERIF_SEED=%d tier=%s tree=%s build=%.1fs", prop, o.seed, o.tier, b.Tree, b.BuildS)
	findings := loadFindings()
	thorough := o.tier == "thorough"
	cfg := spec.DiskCfg{Prop: prop, Seed: o.seed, Tier: o.tier, Shards: o.procs, Only: -1, StepCap: 200_000_000,
		TestData: filepath.Join(b.Repo, "test-data"), Corpus: "small", DeadlineS: 3600}
	cfg.MaxSampled = uint64(o.n(2500, 60000))
	if prop == "C09" {
		cfg.MaxSampled = uint64(o.n(2500, 40000))
	}
	if thorough {
		cfg.Corpus = "full"
		cfg.DeadlineS = 3 * 3600
	}
	aggc := make(chan *spec.DiskResult, o.procs)
	fatalc := make(chan spec.DiskCase, 256)
	errs := make([]error, o.procs)
	var restarts int64
	t0 := time.Now()
	parallel(o.procs, o.procs, func(i int) { errs[i] = runShard(b, "disk", cfg, i, aggc, fatalc, &restarts) })
	close(aggc)
	close(fatalc)
	batchWall := time.Since(t0).Seconds()
	for _, e := range errs {
		if e != nil {
			infraFail("%s: %v", prop, e)
		}
	}
	agg := &diskAgg{skipped: map[string]uint64{}, faults: map[string]uint64{}, entries: map[string]uint64{}, outcomes: map[string]uint64{},
		probes: map[string]uint64{}, findings: map[string]*spec.DiskFinding{}, entryMs: map[string]float64{}}
	for r := range aggc {
		agg.merge(r)
	}
	agg.restarts = int(restarts)
	for c := range fatalc {
		agg.fatalCases = append(agg.fatalCases, c)
	}
	logf("%s: %d cases (%d enumerated, %d sampled) in %.1fs = %.0f cases/s; %d distinct signatures before triage; %d process-fatal cases; slowest case %.0f ms",
		prop, agg.cases, agg.enumerated, agg.sampled, batchWall, float64(agg.cases)/batchWall, len(agg.findings), len(agg.fatalCases), agg.slowest)

	if os.Getenv("VERIF_DEBUG") != "" {
		type kv struct {
			k string
			v float64
		}
		var kvs []kv
		for k, v := range agg.entryMs {
			kvs = append(kvs, kv{k, v})
		}
		sort.Slice(kvs, func(i, j int) bool { return kvs[i].v > kvs[j].v })
		for i := 0; i < len(kvs) && i < 25; i++ {
			logf("  time %8.1fs  %s", kvs[i].v/1000, kvs[i].k)
		}
	}
	sigs := make([]string, 0, len(agg.findings))
	for s := range agg.findings {
		sigs = append(sigs, s)
	}
	sort.Strings(sigs)
	exit, nViol, screened := 0, 0, 0
	var knownMatched, screenedList []string
	report := func(v *Violation, detail string, seen uint64) {
		if f := knownFor(findings, prop, v.Sig); f != nil {
			fmt.Printf("KNOWN-FINDING: property=%s %s — %s (seen %d times)\n", prop, v.Sig, f.Note, seen)
			knownMatched = append(knownMatched, v.Sig)
			return
		}
		nViol++
		exit = 1
		p := writeReplay(v, detail, b.Tree, "")
		fmt.Printf("VIOLATION property=%s replay=%s\n", prop, p)
		fmt.Printf("  signature: %s\n  detail: %s\n  reproduced: %s; seen %d times\n", v.Sig, firstLine(v.Detail), detail, seen)
	}
	if prop == "C08" {
		for _, sig := range sigs {
			f := agg.findings[sig]
			if f.Class != "panic" {
				continue // budget sentinels belong to C09
			}
			run := caseToRun(&f.Case, 400_000_000)
			v := Violation{Prop: prop, Class: "panic", Sig: sig, Run: run, Build: "plain", Seed: o.seed,
				Detail: fmt.Sprintf("%s at %s via %s; base %s faults %v; also via %v", f.Panic, f.PanicLoc, f.Case.Entry, f.Case.Base, f.Case.Faults, f.Entries),
				Notes:  []string{f.Stack}}
			if knownFor(findings, prop, sig) == nil {
				sigOf := func(r *spec.Run) string { s, _ := b.panicSigOf(r); return s }
				minimiseBytes(b, &v, sigOf)
				ok := 0
				for i := 0; i < 2; i++ {
					if sigOf(&v.Run) == sig {
						ok++
					}
				}
				report(&v, fmt.Sprintf("%d/2", ok), f.Count)
			} else {
				report(&v, "", f.Count)
			}
		}
		for _, c := range agg.fatalCases {
			run := caseToRun(&c, 400_000_000)
			s, _ := b.panicSigOf(&run)
			if !strings.HasPrefix(s, "fatal:") {
				// did not die alone: attribute to resource pressure of the batch, not to the library
				logf("C08: process-fatal case %d did not reproduce alone (%s); not reported", c.Index, s)
				continue
			}
			v := Violation{Prop: prop, Class: "fatal", Sig: s + " via " + c.Entry, Run: run, Build: "plain", Seed: o.seed,
				Detail: fmt.Sprintf("the process died while decoding (base %s faults %v)", c.Base, c.Faults)}
			report(&v, "1/1", 1)
		}
	} else {
		// C09: deterministic candidates from the simulated clock / ledger, then literal confirmation
		cands := []*spec.DiskFinding{}
		for _, sig := range sigs {
			f := agg.findings[sig]
			if strings.HasPrefix(f.Class, "budget-") {
				cands = append(cands, f)
			}
		}
		for _, c := range agg.fatalCases {
			cc := c
			cands = append(cands, &spec.DiskFinding{Sig: "budget-fatal: " + c.Entry, Class: "budget-fatal", Case: cc, Count: 1,
				Detail: "the instrumented worker process died on this case: " + strings.Join(c.Faults, "; ")})
		}
		for _, f := range cands {
			sig := f.Sig
			if f.Site != 0 && int(f.Site) < len(b.Table.Sites) {
				st := b.Table.Sites[f.Site]
				sig = fmt.Sprintf("%s: %s", f.Class, st.Fn+"@"+filepath.Dir(st.File))
			}
			run := caseToRun(&f.Case, 0)
			v := Violation{Prop: prop, Class: f.Class, Sig: sig, Run: run, Build: "noinstr", Seed: o.seed,
				Detail: fmt.Sprintf("%s; entry %s base %s faults %v", f.Detail, f.Case.Entry, f.Case.Base, f.Case.Faults)}
			if knownFor(findings, prop, sig) != nil {
				report(&v, "", f.Count)
				continue
			}
			// two consecutive confirmations, serialised so that load does not distort them;
			// further examples of the same signature are tried until one confirms
			examples := append([]spec.DiskCase{f.Case}, f.Alt...)
			if f.Class == "budget-heap" && len(f.Alt) == len(f.AltVal) {
				// largest allocation first
				idx := make([]int, len(f.Alt))
				for i := range idx {
					idx[i] = i
				}
				sort.Slice(idx, func(x, y int) bool { return f.AltVal[idx[x]] > f.AltVal[idx[y]] })
				examples = examples[:0]
				for _, i := range idx {
					examples = append(examples, f.Alt[i])
				}
				examples = append(examples, f.Case)
			}
			if len(examples) > 12 {
				examples = examples[:12]
			}
			var ok1, ok2 bool
			var d1, d2 string
			for ei := range examples {
				ok1, d1 = confirmC09(b, &examples[ei], f.Class)
				ok2 = false
				if ok1 {
					ok2, d2 = confirmC09(b, &examples[ei], f.Class)
				}
				if ok1 && ok2 {
					v.Run = caseToRun(&examples[ei], 0)
					v.Detail = fmt.Sprintf("%s; entry %s base %s faults %v", f.Detail, examples[ei].Entry, examples[ei].Base, examples[ei].Faults)
					break
				}
			}
			if ok1 && ok2 {
				v.Detail += "; confirmation 1: " + d1 + "; confirmation 2: " + d2
				report(&v, "2/2", f.Count)
			} else {
				screened++
				screenedList = append(screenedList, fmt.Sprintf("%s (%s)", sig, d1))
			}
		}
	}
	outcomes := map[string]uint64{}
	for k, v := range agg.outcomes {
		outcomes[k] = v
	}
	samples := []interface{}{}
	for _, c := range agg.samples {
		samples = append(samples, map[string]interface{}{"entry": c.Entry, "base": c.Base, "faults": c.Faults, "len": len(c.Data), "head_hex": fmt.Sprintf("%x", c.Data)})
	}
	if len(samples) == 0 {
		samples = append(samples, "no sample retained")
	}
	level := "exploration"
	if prop == "C08" {
		level = "fault_enumeration"
	}
	rule := "one evaluation = one (decode entry point, byte string) pair: a stream written by the real encoders (or a third-party HTJ2K code-stream), damaged by the storage fault model, decoded under recover() with a step cap on the simulated clock and an allocation ledger. Enumerated exhaustively for every corpus stream <= 1400 bytes: truncation at every offset, every value of every byte of the marker segments (first 400 bytes of them), zero padding, RLE FrameInfo corruption; sampled from VERIF_SEED: 1..4 composed faults (truncate, torn, flip, poke, zero-sector, drop, dup, swap, splice, garbage, refragment) incl. inside entropy-coded data and cross-family entry points. distinct = distinct (entry, bytes) by SHA-256; every case differs from the valid stream, hence non-trivial"
	ev := &Evidence{PropertyID: prop, Tier: o.tier, Seed: int64(o.seed), Level: level, WallS: w.secs(), Violations: nViol,
		Coverage: map[string]interface{}{
			"evaluations":                         agg.cases,
			"distinct_nontrivial":                 agg.distinct,
			"rule":                                rule,
			"samples":                             samples,
			"exhaustive":                          false,
			"enumerated_cases":                    agg.enumerated,
			"sampled_cases":                       agg.sampled,
			"cases_per_hour":                      float64(agg.cases) / batchWall * 3600,
			"simulated_steps":                     agg.steps,
			"fault_kinds_fired":                   agg.faults,
			"entry_points":                        agg.entries,
			"outcomes":                            outcomes,
			"skipped_out_of_domain_or_guard_rail": agg.skipped,
			"probes":                              agg.probes,
			"corpus":                              agg.corpus,
			"slowest_case_ms":                     agg.slowest,
			"process_fatal_cases":                 len(agg.fatalCases),
			"worker_restarts":                     agg.restarts,
			"screened_candidates":                 screenedList,
			"known_findings_matched":              knownMatched,
			"components": map[string]interface{}{
				"real":      []string{"all repository decoders and the encoders that wrote the corpus (instrumented copy of the working tree)", "image/jpeg (8-bit Extended path)"},
				"simulated": []string{"storage: what a decoder reads is what a faulty disk returns", "DICOM fragmentation", "PixelData source/sink for codec-level entry points", "simulated clock = instrumented step counter; allocation ledger at make()"},
			},
			"build_s": b.BuildS, "tree": b.Tree,
		},
		Assumptions: []string{
			"reach is limited to byte strings within 4 storage faults of a real encoder's output (or valid prefix + noise); coordinated multi-field rewrites are outside the fault model",
			"C08 guard rails: headers declaring > 2^22 samples or > 4096 tiles are skipped and counted; step/alloc sentinels are C09 candidates, not panics",
		},
	}
	if prop == "C09" {
		ev.Assumptions = append(ev.Assumptions, "stage 1 (search) uses only the deterministic step clock and allocation ledger; stage 2 certifies a candidate twice in an un-instrumented GOMAXPROCS=1 child against the property's own numbers (CPU > 10 s, live heap > 512 MiB + 64*S, OOM abort)")
	}
	writeEvidence(ev)
	logf("%s: %d known-finding signatures, %d screened candidates, %d violations, %.1fs", prop, len(knownMatched), screened, nViol, w.secs())
	return exit
}

func replayDisk(rp *spec.Replay) bool {
	if rp.Property == "C08" {
		b := NewBuild("plain")
		s, or := b.panicSigOf(&rp.Run)
		if or != nil && or.Panic != "" {
			fmt.Printf("  %s at %s\n", or.Panic, or.PanicLoc)
		}
		return s == rp.Signature || (strings.HasPrefix(rp.Signature, "fatal:") && strings.HasPrefix(s, "fatal:"))
	}
	b := NewBuild("noinstr")
	c := runToCase(&rp.Run)
	ok1, d1 := confirmC09(b, &c, rp.Class)
	fmt.Println("  confirmation 1:", d1)
	if !ok1 {
		return false
	}
	ok2, d2 := confirmC09(b, &c, rp.Class)
	fmt.Println("  confirmation 2:", d2)
	return ok2
}
