package main

func cmdBuildTest() int { return 0 }
