package main

import "verif/sim/spec"

func cmdBuildTest() int                   { return 0 }
func checkC10(o checkOpts) int            { return 2 }
func checkDisk(o checkOpts, p string) int { return 2 }
func checkC17(o checkOpts) int            { return 2 }
func cmdSelftest(args []string) int       { return 2 }
func replayC10(rp *spec.Replay) bool      { return false }
func replayDisk(rp *spec.Replay) bool     { return false }
func replayC17(rp *spec.Replay) bool      { return false }
