// simctl is the orchestrator of the deterministic-simulation checks
// (DESIGN §3): build pipeline, seed fan-out, oracles, minimiser, evidence.
package main

import (
	"fmt"
	"os"
	"os/signal"
	"syscall"
)

func usage() {
	fmt.Fprintln(os.Stderr, `usage:
  simctl check <C08|C09|C10|C17|C18> [--tier quick|thorough]
  simctl replay <file>
  simctl selftest [--smoke]
  simctl buildtest`)
	os.Exit(2)
}

func main() {
	if len(os.Args) < 2 {
		usage()
	}
	// every go invocation (ours and go/packages') must resolve to the pinned toolchain
	os.Setenv("PATH", goBinDir+":"+os.Getenv("PATH"))
	for _, kv := range [][2]string{{"GOFLAGS", "-mod=mod"}, {"GOPROXY", "off"}, {"GOSUMDB", "off"}, {"GOTOOLCHAIN", "local"}, {"GOWORK", "off"}} {
		os.Setenv(kv[0], kv[1])
	}
	sig := make(chan os.Signal, 1)
	signal.Notify(sig, syscall.SIGINT, syscall.SIGTERM)
	go func() {
		<-sig
		cleanupAll()
		os.Exit(2)
	}()
	code := 0
	switch os.Args[1] {
	case "buildtest":
		code = cmdBuildTest()
	case "check":
		code = cmdCheck(os.Args[2:])
	case "replay":
		code = cmdReplay(os.Args[2:])
	case "selftest":
		code = cmdSelftest(os.Args[2:])
	default:
		usage()
	}
	cleanupAll()
	os.Exit(code)
}
