package main

import (
	"encoding/json"
	"fmt"
	"os"
	"path/filepath"
	"sort"
	"strings"
	"sync"
	"time"

	"verif/sim/spec"
)

const farStep = uint64(1) << 62

// ---------------------------------------------------------------- workload

type c18Meta struct {
	Large   bool   // large-geometry round (frames well above the 64-sample block size)
	Shape   string // twins | pair | free
	Policy  string
	Clients int
	Shared  string
	Focus   []string
	Faulted bool
	Gomax   int
	Pins    []string
}

// genC18 draws the workload of one run (no schedule yet).
func genC18(seed uint64, idx int, thorough bool) (spec.Run, c18Meta) {
	root := spec.NewRng(seed)
	wr := root.Child(1) // workload stream
	meta := c18Meta{}
	nClients := 2 + wr.Intn(4)
	if wr.Chance(1, 4) {
		nClients = 2
	}
	if wr.Chance(1, 8) {
		nClients = 6 + wr.Intn(6)
	}
	if thorough && wr.Chance(1, 40) {
		nClients = 16 + wr.Intn(49) // up to 64
	}
	meta.Clients = nClients
	// coverage is cycled, not left to chance: run idx focuses codec idx%14 and
	// parameter-sharing mode (idx/14)%5; a second focus codec is drawn at random
	meta.Focus = []string{allTS[idx%len(allTS)]}
	if wr.Bool() {
		meta.Focus = append(meta.Focus, spec.Pick(wr, allTS))
	}
	meta.Shared = []string{"shared-default", "none", "shared-base", "none", "mixed"}[(idx/len(allTS))%5]
	meta.Faulted = wr.Chance(1, 8)
	meta.Gomax = spec.Pick(wr, []int{1, 2, 4, 16})
	maxDim := 24
	if thorough {
		maxDim = 48
		if wr.Chance(1, 10) {
			maxDim = 128
		}
	}
	if nClients > 12 {
		maxDim = 12
	}
	// Large-geometry rounds: code-blocks, precincts and tiles default to 64 samples, so paths
	// that only full-size blocks take need frames well above 64x64. Every tenth round of the
	// JPEG 2000 family runs three twins on frames of 127..160 pixels.
	large := isJ2K(meta.Focus[0]) && (idx/len(allTS))%10 == 7
	if large {
		nClients = 3
		meta.Clients = 3
		meta.Large = true
		maxDim = 160
	}
	run := spec.Run{Mode: "sched", Seed: seed, Gomaxprocs: meta.Gomax, SortMaps: true}
	// Run shapes (cycled): shared-state defects usually need the *same* code path in two
	// clients at once, so one third of the runs are "twins" (every client performs the same
	// kind of call on the focus codec with the same frame description, different content),
	// one third pair an encoder with a decoder of the same description, one third are free.
	meta.Shape = []string{"twins", "pair", "free"}[(idx/(5*len(allTS)))%3]
	if large {
		meta.Shape = "twins"
	}
	twinKind := []string{"enc", "dec"}[(idx/(15*len(allTS))+idx)%2]
	sharedInfo := genInfo(wr.Child(7), meta.Focus[0], genOpt{maxDim: maxDim, signed: true})
	if large {
		sharedInfo.W, sharedInfo.H = spec.Pick(wr, []int{127, 128, 129, 160}), spec.Pick(wr, []int{127, 128, 129, 160})
		sharedInfo.SPP, sharedInfo.PI, sharedInfo.Planar = 1, "MONOCHROME2", 0
	}
	for c := 0; c < nClients; c++ {
		cr := wr.Child(uint64(100 + c))
		nOps := 1
		if cr.Chance(1, 3) {
			nOps = 2
		}
		if thorough && cr.Chance(1, 10) {
			nOps = 3
		}
		if nClients > 12 || large {
			nOps = 1
		}
		var t spec.Task
		for k := 0; k < nOps; k++ {
			ts := spec.Pick(cr, meta.Focus)
			if cr.Chance(1, 5) {
				ts = spec.Pick(cr, allTS)
			}
			force := ""
			var useInfo *spec.Info
			switch {
			case large:
				ts, force, useInfo = meta.Focus[0], twinKind, &sharedInfo
			case meta.Shape == "twins" && (k == 0 || cr.Bool()):
				ts, force, useInfo = meta.Focus[0], twinKind, &sharedInfo
			case meta.Shape == "pair" && c < 2 && k == 0:
				ts, force, useInfo = meta.Focus[0], []string{"enc", "dec"}[c%2], &sharedInfo
			case c < 2 && k == 0:
				// the first two clients always meet on the focus codec instance
				ts = meta.Focus[0]
				force = []string{"enc", "dec"}[(c+idx)%2]
			}
			op := genC18Op(cr, ts, meta, maxDim, thorough, force)
			if useInfo != nil && (op.Kind == "enc" || op.Kind == "dec") {
				op.Info = *useInfo
			}
			op.Obj = k + 1
			t.Ops = append(t.Ops, op)
		}
		run.Tasks = append(run.Tasks, t)
	}
	return run, meta
}

func genC18Op(r *spec.Rng, ts string, meta c18Meta, maxDim int, thorough bool, force string) spec.Op {
	if isJ2K(ts) && maxDim > 32 && !thorough {
		maxDim = 32
	}
	in := genInfo(r, ts, genOpt{maxDim: maxDim, signed: true})
	nFrames := 1
	if r.Chance(1, 4) {
		nFrames = 2
	}
	if thorough && r.Chance(1, 10) {
		nFrames = 3
	}
	op := spec.Op{TS: ts, Info: in, Frames: genFrames(r, nFrames), From: -1}
	// low-level packages: private objects per client
	if force == "" && r.Chance(1, 6) {
		if tgt, ok := pkgTargetFor[ts]; ok {
			op.Target = tgt
			op.Q, op.Near, op.Pred = r.Range(30, 95), r.Range(0, 5), r.Range(1, 7)
			if r.Bool() {
				op.Kind = "pkgenc"
			} else {
				op.Kind = "pkgdec"
				op.Pre = true
			}
			return op
		}
		if isJ2K(ts) {
			ht := ts == "201" || ts == "202" || ts == "203"
			if r.Bool() {
				op.Kind = "j2kenc"
				op.Obj = 1
				op.Enc = &spec.J2KEnc{Levels: r.Range(0, 3), Lossless: r.Bool(), MCT: r.Bool(), Layers: 1, HT: ht && r.Bool(), Quality: 80}
			} else {
				op.Kind = "j2kdec"
				op.Obj = 1
				op.Pre = true
				op.Dec = &spec.J2KDec{HT: ht, Resilient: r.Chance(1, 4)}
			}
			return op
		}
	}
	if force == "enc" || (force == "" && r.Bool()) {
		op.Kind = "enc"
	} else {
		op.Kind = "dec"
		op.Pre = true
		if r.Chance(1, 3) {
			op.PreKV = genKV(r, ts)
		}
	}
	// parameters
	mode := "nil"
	switch meta.Shared {
	case "none":
		mode = spec.Pick(r, []string{"nil", "default", "base"})
	case "shared-default", "shared-base":
		if force != "" || r.Chance(3, 4) {
			mode = meta.Shared
		} else {
			mode = spec.Pick(r, []string{"nil", "default", "base"})
		}
	case "mixed":
		mode = spec.Pick(r, []string{"nil", "default", "base", "shared-default", "shared-base"})
	}
	op.Params = spec.Params{Mode: mode}
	if (mode == "default" || mode == "base") && r.Chance(2, 3) {
		op.Params.KV = genKV(r, ts)
	}
	if meta.Faulted && r.Chance(1, 2) {
		switch r.Intn(3) {
		case 0:
			op.SrcFaults = []spec.Fault{{Kind: "get-err", K: r.Intn(len(op.Frames))}}
		case 1:
			op.SinkFaults = []spec.Fault{{Kind: "add-err", K: r.Intn(len(op.Frames))}}
		case 2:
			op.SrcFaults = []spec.Fault{{Kind: "short", K: r.Intn(len(op.Frames)), N: 1 + r.Intn(8)}}
		}
	}
	return op
}

// ---------------------------------------------------------------- references

type refEntry struct {
	op    spec.Op
	res   spec.OpResult
	hist  []spec.SiteStat
	err   error
	wallS float64
}

type refCache struct {
	mu       sync.Mutex
	m        map[string]*refEntry
	b        *Build
	variant  string
	dirSeq   int
	stepCap  uint64
	sortMaps bool
}

func newRefCache(b *Build, variant string) *refCache {
	return &refCache{m: map[string]*refEntry{}, b: b, variant: variant, stepCap: 4e9}
}

// soloRun builds the fresh-world run for one operation.
func soloRun(op spec.Op, stepCap uint64) spec.Run {
	return spec.Run{Mode: "solo", Tasks: []spec.Task{{Ops: []spec.Op{op}}}, WantHist: true, StepCap: stepCap}
}

// fill computes the references of all given operations (memoised, parallel).
func (rc *refCache) fill(ops []spec.Op, procs int) {
	var todo []string
	byKey := map[string]spec.Op{}
	rc.mu.Lock()
	for i := range ops {
		k := opKey(&ops[i])
		if _, ok := rc.m[k]; !ok {
			if _, dup := byKey[k]; !dup {
				byKey[k] = ops[i]
				todo = append(todo, k)
			}
		}
	}
	base := rc.dirSeq
	rc.dirSeq += len(todo)
	rc.mu.Unlock()
	sort.Strings(todo)
	parallel(len(todo), procs, func(i int) {
		k := todo[i]
		op := byKey[k]
		dir := filepath.Join(rc.b.Scratch, fmt.Sprintf("ref-%d", base+i))
		r := soloRun(op, rc.stepCap)
		r.SortMaps = rc.sortMaps
		t0 := time.Now()
		res, err := rc.b.exec(rc.variant, &r, dir, 5*time.Minute)
		os.RemoveAll(dir)
		e := &refEntry{op: op, err: err, wallS: time.Since(t0).Seconds()}
		if err == nil && len(res.Tasks) == 1 && len(res.Tasks[0]) == 1 {
			e.res = res.Tasks[0][0]
			e.hist = res.Hist
		} else if err == nil {
			e.err = fmt.Errorf("malformed solo result")
		}
		rc.mu.Lock()
		rc.m[k] = e
		rc.mu.Unlock()
	})
}

func (rc *refCache) get(op *spec.Op) *refEntry {
	rc.mu.Lock()
	defer rc.mu.Unlock()
	return rc.m[opKey(op)]
}

// compareOp is the solo-equivalence oracle: "" when the concurrent/history
// result equals the fresh-world result. Error text is never compared.
func compareOp(ref, got *spec.OpResult) string {
	switch {
	case (ref.Panic != "") != (got.Panic != ""):
		return fmt.Sprintf("panic differs: solo=%q here=%q at %s", ref.Panic, got.Panic, got.PanicFn)
	case ref.Err != got.Err:
		return fmt.Sprintf("error differs: solo err=%v here err=%v (%s)", ref.Err, got.Err, got.ErrText)
	case len(ref.Out) != len(got.Out):
		return fmt.Sprintf("frame count differs: solo=%d here=%d", len(ref.Out), len(got.Out))
	}
	for i := range ref.Out {
		if string(ref.Out[i]) != string(got.Out[i]) {
			return fmt.Sprintf("output frame %d differs (len solo=%d here=%d)", i, len(ref.Out[i]), len(got.Out[i]))
		}
	}
	if ref.SrcIntact != got.SrcIntact {
		return fmt.Sprintf("caller's source frames intact: solo=%v here=%v", ref.SrcIntact, got.SrcIntact)
	}
	if ref.InfoIntact != got.InfoIntact {
		return fmt.Sprintf("caller's FrameInfo intact: solo=%v here=%v", ref.InfoIntact, got.InfoIntact)
	}
	if ref.ParamsAfter != got.ParamsAfter {
		return "private parameters object ends in a different state"
	}
	return ""
}

// ---------------------------------------------------------------- planner

type taskLine struct {
	opStart []uint64
	total   uint64
}

func timelines(run *spec.Run, rc *refCache) []taskLine {
	tl := make([]taskLine, len(run.Tasks))
	for ti, t := range run.Tasks {
		var acc uint64
		for oi := range t.Ops {
			tl[ti].opStart = append(tl[ti].opStart, acc)
			if e := rc.get(&t.Ops[oi]); e != nil && e.err == nil {
				acc += e.res.Steps
			}
		}
		tl[ti].total = acc
	}
	return tl
}

type pinCand struct {
	step uint64
	site uint32
	hot  string
	post bool
}

// pinCandidates lists, for one task, where parking it is interesting.
func pinCandidates(b *Build, run *spec.Run, ti int, tl []taskLine, rc *refCache, r *spec.Rng) []pinCand {
	var w, rd, other []pinCand
	for oi := range run.Tasks[ti].Ops {
		e := rc.get(&run.Tasks[ti].Ops[oi])
		if e == nil || e.err != nil {
			continue
		}
		base := tl[ti].opStart[oi]
		for _, h := range e.hist {
			s, hot := b.hot[h.Site]
			if !hot {
				continue
			}
			post := b.Table.Sites[h.Site].Kind == "post"
			occ := h.First
			switch r.Intn(3) {
			case 1:
				occ = h.Last
			case 2:
				if h.Last > h.First {
					occ = h.First + r.U64()%(h.Last-h.First+1)
				}
			}
			c := pinCand{step: base + occ, site: h.Site, hot: s.Hot, post: post}
			if s.Hot == "w" {
				w = append(w, c)
			} else {
				rd = append(rd, c)
			}
		}
		other = append(other, pinCand{step: base + 1}, pinCand{step: base + e.res.Steps})
		for k := 0; k < 6 && e.res.Steps > 4; k++ {
			other = append(other, pinCand{step: base + 1 + r.U64()%e.res.Steps})
		}
	}
	// write-hot sites (4/10), read-hot (2/10), entry/exit/uniformly random step (4/10): the
	// last class is what finds sharing the instrumenter cannot recognise (pools, aliases)
	switch x := r.Intn(10); {
	case x < 4 && len(w) > 0:
		return w
	case x < 6 && len(rd) > 0:
		return rd
	case len(other) > 0 && (x >= 6 || len(w) == 0):
		return other
	case len(w) > 0:
		return w
	case len(rd) > 0:
		return rd
	}
	return other
}

// plan turns a policy into an explicit segment list.
func plan(b *Build, run *spec.Run, meta *c18Meta, rc *refCache, seed uint64) {
	r := spec.NewRng(seed).Child(2) // schedule stream
	tl := timelines(run, rc)
	n := len(run.Tasks)
	perm := func() []int {
		p := make([]int, n)
		for i := range p {
			p[i] = i
		}
		for i := n - 1; i > 0; i-- {
			j := r.Intn(i + 1)
			p[i], p[j] = p[j], p[i]
		}
		return p
	}
	var segs []spec.Seg
	pol := r.Intn(20)
	if meta.Shape == "twins" && pol >= 10 && pol < 15 {
		pol = 0 // twins runs favour pin-and-sweep (15/20)
	}
	segCap := 6000
	if meta.Large {
		// long operations with dense, unrecognisable sharing (an object handed out by a factory):
		// fine-grained round-robin keeps every client's recent past inside its trace
		pol = 10 + r.Intn(2)*9 // round-robin or random-walk
		if r.Chance(1, 3) {
			pol = 0
		}
		segCap = 60000
	}
	switch {
	case pol < 10: // pin-and-sweep
		meta.Policy = "pin-and-sweep"
		order := perm()
		depth := 1 + r.Intn(3)
		if depth > n-1 {
			depth = n - 1
		}
		if depth < 1 {
			depth = 1
		}
		for d := 0; d < depth; d++ {
			a := order[d]
			cands := pinCandidates(b, run, a, tl, rc, r)
			if len(cands) == 0 {
				continue
			}
			c := spec.Pick(r, cands)
			// atomicity windows are a handful of steps wide: half of the pins park within 2 steps
			var delta uint64
			switch r.Intn(4) {
			case 0, 1:
				delta = uint64(r.Intn(3))
			case 2:
				delta = uint64(3 + r.Intn(6))
			default:
				delta = uint64(9 + r.Intn(56))
			}
			if !c.post && delta == 0 {
				delta = 1
			}
			segs = append(segs, spec.Seg{Task: a, Until: c.step + delta})
			what := "entry/exit"
			if c.site != 0 {
				what = b.siteName(c.site) + "/" + c.hot
			}
			meta.Pins = append(meta.Pins, fmt.Sprintf("task%d@%d+%d %s", a, c.step, delta, what))
		}
		for _, t := range order[depth:] {
			segs = append(segs, spec.Seg{Task: t, Until: farStep})
		}
		for d := depth - 1; d >= 0; d-- {
			segs = append(segs, spec.Seg{Task: order[d], Until: farStep})
		}
	case pol < 14: // round-robin(q)
		q := uint64(50 + r.Intn(1951))
		meta.Policy = fmt.Sprintf("round-robin(%d)", q)
		cur := make([]uint64, n)
		for len(segs) < segCap {
			progressed := false
			for t := 0; t < n; t++ {
				if cur[t] < tl[t].total+q {
					cur[t] += q
					segs = append(segs, spec.Seg{Task: t, Until: cur[t]})
					progressed = true
				}
			}
			if !progressed {
				break
			}
		}
	case pol < 17: // PCT(d): priority order with d change points, biased to op starts and hot sites
		d := 1 + r.Intn(16)
		meta.Policy = fmt.Sprintf("pct(%d)", d)
		prio := perm()
		type cp struct {
			t    int
			step uint64
		}
		var cps []cp
		for i := 0; i < d; i++ {
			t := r.Intn(n)
			var step uint64
			if r.Bool() {
				cands := pinCandidates(b, run, t, tl, rc, r)
				if len(cands) > 0 {
					step = spec.Pick(r, cands).step + uint64(r.Intn(8))
				}
			}
			if step == 0 {
				// first 300 steps of a random op of t
				oi := r.Intn(len(tl[t].opStart))
				step = tl[t].opStart[oi] + uint64(1+r.Intn(300))
			}
			cps = append(cps, cp{t, step})
		}
		// priority order; a task that reaches one of its change points is demoted to the end
		sort.Slice(cps, func(i, j int) bool { return cps[i].step < cps[j].step })
		cur := make([]uint64, n)
		done := make([]bool, n)
		for len(segs) < 4*n+4*d+8 {
			t := -1
			for _, c := range prio {
				if !done[c] {
					t = c
					break
				}
			}
			if t < 0 {
				break
			}
			var next uint64
			for _, c := range cps {
				if c.t == t && c.step > cur[t] {
					next = c.step
					break
				}
			}
			if next == 0 {
				segs = append(segs, spec.Seg{Task: t, Until: farStep})
				done[t] = true
				continue
			}
			segs = append(segs, spec.Seg{Task: t, Until: next})
			cur[t] = next
			// demote
			np := make([]int, 0, n)
			for _, c := range prio {
				if c != t {
					np = append(np, c)
				}
			}
			prio = append(np, t)
		}
	case pol < 19: // random walk
		meta.Policy = "random-walk"
		cur := make([]uint64, n)
		for len(segs) < 3000 {
			alive := []int{}
			for t := 0; t < n; t++ {
				if cur[t] < tl[t].total {
					alive = append(alive, t)
				}
			}
			if len(alive) == 0 {
				break
			}
			t := spec.Pick(r, alive)
			var l uint64
			switch r.Intn(4) {
			case 0:
				l = uint64(1 + r.Intn(50))
			case 1:
				l = uint64(50 + r.Intn(2000))
			case 2:
				l = uint64(2000 + r.Intn(100000))
			default:
				l = tl[t].total/uint64(2+r.Intn(6)) + 1
			}
			cur[t] += l
			segs = append(segs, spec.Seg{Task: t, Until: cur[t]})
		}
	default: // sequential permutation
		meta.Policy = "sequential"
		for _, t := range perm() {
			segs = append(segs, spec.Seg{Task: t, Until: farStep})
		}
	}
	run.Schedule = segs
	var sum uint64
	for _, t := range tl {
		sum += t.total
	}
	run.StepCap = sum*3 + 50_000_000
}

// ---------------------------------------------------------------- evaluation

type c18Outcome struct {
	viols         []Violation
	switches      int
	ilvHash       string
	steps         uint64
	fired         map[string]int
	races         int
	sharedChg     int
	blockedYields uint64
	stepsDiffer   int
	soloUnstable  int
	wallS         float64
	infra         string
}

// evalC18 executes one planned run and applies the oracles.
func evalC18(b *Build, run *spec.Run, rc *refCache, dir string, timeout time.Duration) c18Outcome {
	var out c18Outcome
	out.fired = map[string]int{}
	res, info, err := b.execInfo("race", run, dir, timeout)
	out.wallS = info.WallS
	if info.TimedOut {
		// Not a verdict: a runaway loop ends at the step cap and a lock cycle at the shim's
		// deadlock sentinel, both deterministically and inside the run. A wall-clock watchdog
		// firing means the machine (or the harness) is in trouble: exit 2.
		out.infra = "worker killed by the wall-clock watchdog; " + tail(info.Stderr, 400)
		return out
	}
	if err != nil {
		// a process-fatal event inside library code (e.g. "fatal error: concurrent map writes")
		if strings.Contains(info.Stderr, "fatal error:") {
			line := firstLineWith(info.Stderr, "fatal error:")
			out.viols = append(out.viols, Violation{Prop: "C18", Class: "fatal", Sig: "fatal: " + line, Detail: tail(info.Stderr, 1500)})
			return out
		}
		out.infra = fmt.Sprintf("worker failed: %v; stderr: %s", err, tail(info.Stderr, 800))
		return out
	}
	out.switches = len(res.Switches)
	out.blockedYields = res.BlockedYields
	out.steps = res.TotalSteps
	var sb strings.Builder
	for _, s := range res.Switches {
		fmt.Fprintf(&sb, "%d@%d>%d;", s.From, s.Site, s.To)
	}
	out.ilvHash = spec.Hash(sb.String())
	// oracle 1: race reports
	reps := parseRaceLog(info.RaceLog, b.Repo)
	out.races = len(reps)
	seen := map[string]bool{}
	for _, rp := range reps {
		if !rp.hasRepoFrame() {
			out.infra = "race report without a repository frame (harness bug?):\n" + tail(rp.Raw, 1500)
			return out
		}
		sig := rp.sig()
		if seen[sig] {
			continue
		}
		seen[sig] = true
		out.viols = append(out.viols, Violation{Prop: "C18", Class: "race", Sig: sig, Detail: rp.detail() + "\n" + tail(rp.Raw, 3000)})
	}
	// oracle 2+3: solo equivalence, every call returned
	for ti := range run.Tasks {
		if ti >= len(res.Tasks) || len(res.Tasks[ti]) != len(run.Tasks[ti].Ops) {
			out.viols = append(out.viols, Violation{Prop: "C18", Class: "no-return", Sig: "no-return: a client did not finish its calls",
				Detail: fmt.Sprintf("task %d returned %d of %d results", ti, len(res.Tasks[ti]), len(run.Tasks[ti].Ops))})
			continue
		}
		for oi := range run.Tasks[ti].Ops {
			op := &run.Tasks[ti].Ops[oi]
			got := &res.Tasks[ti][oi]
			for k, v := range got.Fired {
				out.fired[k] += v
			}
			ref := rc.get(op)
			if ref == nil || ref.err != nil {
				out.infra = fmt.Sprintf("missing reference for op %s/%s: %v", op.Kind, op.TS, ref)
				return out
			}
			if ref.res.Steps != got.Steps {
				out.stepsDiffer++
			}
			if d := compareOp(&ref.res, got); d != "" {
				sig := fmt.Sprintf("solo-mismatch: %s %s params=%s", op.Kind, opTarget(op), op.Params.Mode)
				out.viols = append(out.viols, Violation{Prop: "C18", Class: "solo-mismatch", Sig: sig,
					Detail: fmt.Sprintf("task %d op %d: %s", ti, oi, d)})
			}
		}
	}
	for k, v := range res.SharedBefore {
		if res.SharedAfter[k] != v {
			out.sharedChg++
		}
	}
	for i := range out.viols {
		out.viols[i].Run = *run
		out.viols[i].Build = "race"
		out.viols[i].Seed = run.Seed
	}
	return out
}

func opTarget(op *spec.Op) string {
	if op.TS != "" && (op.Kind == "enc" || op.Kind == "dec") {
		return tsUID[op.TS]
	}
	if op.Target != "" {
		return op.Target
	}
	return "jpeg2000.object(" + op.TS + ")"
}

func firstLineWith(s, sub string) string {
	for _, l := range strings.Split(s, "\n") {
		if strings.Contains(l, sub) {
			return strings.TrimSpace(l)
		}
	}
	return sub
}

func collectOps(runs []spec.Run) []spec.Op {
	var ops []spec.Op
	for i := range runs {
		for _, t := range runs[i].Tasks {
			ops = append(ops, t.Ops...)
		}
	}
	return ops
}

// ---------------------------------------------------------------- the check

func checkC18(o checkOpts) int {
	w := startWatch()
	b := NewBuild("race", "plain")
	logf("C18: VERIF_SEED=%d tier=%s tree=%s build=%.1fs sites=%d hot=%d", o.seed, o.tier, b.Tree, b.BuildS, len(b.Table.Sites), len(b.hot))
	if len(b.Table.Degraded) > 0 {
		fmt.Printf("SIM-DEGRADED: library constructs outside the serial scheduler's control: %s\n", strings.Join(b.Table.Degraded, "; "))
	}
	calib := calibrate(b)
	thorough := o.tier == "thorough"
	detChecked, detDiverged := 0, []string(nil)
	if thorough {
		// determinism self-test (DESIGN §4): same replay input, several executions, GOMAXPROCS 1/4/16/2
		detChecked, detDiverged = determinismSelfTest(b, o.seed, 24, 4, o.procs)
		if len(detDiverged) > 0 {
			for _, d := range detDiverged {
				logf("DIVERGENCE: %s", d)
			}
			infraFail("determinism self-test: %d of %d comparisons diverged", len(detDiverged), detChecked)
		}
	}
	N := o.n(420, 12000)
	findings := loadFindings()

	runs := make([]spec.Run, N)
	metas := make([]c18Meta, N)
	for i := 0; i < N; i++ {
		s := spec.SplitMix64(o.seed ^ spec.SplitMix64(uint64(i)+0xC18))
		runs[i], metas[i] = genC18(s, i, thorough)
	}
	rc := newRefCache(b, "plain")
	rc.sortMaps = true
	t0 := time.Now()
	ops := collectOps(runs)
	rc.fill(ops, o.procs)
	logf("C18: %d runs, %d operations, %d distinct references in %.1fs", N, len(ops), len(rc.m), time.Since(t0).Seconds())
	for _, e := range rc.m {
		if e.err != nil {
			infraFail("reference run failed for %s %s: %v", e.op.Kind, e.op.TS, e.err)
		}
	}
	sweepRuns, sweepMetas := genSiteSweep(b, rc, o, thorough)
	nSeeded := len(runs)
	runs = append(runs, sweepRuns...)
	metas = append(metas, sweepMetas...)
	N = len(runs)
	for i := range runs {
		if i < nSeeded {
			plan(b, &runs[i], &metas[i], rc, runs[i].Seed)
		}
		if len(b.Table.Degraded) > 0 {
			// library-internal goroutines are outside the scheduler's control: a Step executed by one of
			// them must never park it, so clients only run one after another (no preemption inside calls);
			// the race detector and the behavioural oracles remain sound
			degradeToSequential(&runs[i], &metas[i])
		}
	}
	outs := make([]c18Outcome, N)
	t1 := time.Now()
	parallel(N, o.procs, func(i int) {
		dir := filepath.Join(b.Scratch, fmt.Sprintf("run-%d", i))
		outs[i] = evalC18(b, &runs[i], rc, dir, 10*time.Minute)
		os.RemoveAll(dir)
	})
	runWall := time.Since(t1).Seconds()

	// aggregate
	bySig := map[string][]int{}
	firstV := map[string]Violation{}
	ilv := map[string]bool{}
	policies := newCounter()
	fired := newCounter()
	var steps uint64
	var switches, races, sharedChg int
	var blockedYields uint64
	var stepsDiffer int
	cover := map[string]bool{}
	for i := range outs {
		if outs[i].infra != "" {
			infraFail("run %d (seed %d): %s", i, runs[i].Seed, outs[i].infra)
		}
		ilv[outs[i].ilvHash] = true
		policies.add(strings.Split(metas[i].Policy, "(")[0], 1)
		steps += outs[i].steps
		switches += outs[i].switches
		races += outs[i].races
		sharedChg += outs[i].sharedChg
		blockedYields += outs[i].blockedYields
		stepsDiffer += outs[i].stepsDiffer
		for k, v := range outs[i].fired {
			fired.add(k, v)
		}
		for _, v := range outs[i].viols {
			if _, ok := firstV[v.Sig]; !ok {
				firstV[v.Sig] = v
			}
			bySig[v.Sig] = append(bySig[v.Sig], i)
		}
		// coverage: (ts, kind, params mode) that ran with a partner on the same codec instance
		cnt := map[string]int{}
		for _, t := range runs[i].Tasks {
			seenTS := map[string]bool{}
			for _, op := range t.Ops {
				if (op.Kind == "enc" || op.Kind == "dec") && !seenTS[op.TS] {
					seenTS[op.TS] = true
					cnt[op.TS]++
				}
			}
		}
		for _, t := range runs[i].Tasks {
			for _, op := range t.Ops {
				if (op.Kind == "enc" || op.Kind == "dec") && cnt[op.TS] >= 2 {
					cover[op.TS+"/"+op.Kind+"/"+op.Params.Mode] = true
				}
			}
		}
	}
	sigs := make([]string, 0, len(bySig))
	for s := range bySig {
		sigs = append(sigs, s)
	}
	sort.Strings(sigs)
	exit := 0
	nViol := 0
	var knownMatched []string
	for _, sig := range sigs {
		v := firstV[sig]
		if f := knownFor(findings, "C18", sig); f != nil {
			fmt.Printf("KNOWN-FINDING: property=C18 %s — %s (seen in %d runs)\n", sig, f.Note, len(bySig[sig]))
			knownMatched = append(knownMatched, sig)
			continue
		}
		nViol++
		exit = 1
		mv, minNote := v, "not minimised: only the first 4 signatures of a run are minimised"
		if nViol <= 4 {
			mv, minNote = minimiseC18(b, v, rc)
		}
		rep := reproduce(b, &mv, rc, 2)
		p := writeReplay(&mv, rep, b.Tree, minNote)
		fmt.Printf("VIOLATION property=C18 replay=%s\n", p)
		fmt.Printf("  signature: %s\n  detail: %s\n  reproduced: %s; seen in %d of %d runs; first seed %d\n", sig, firstLine(v.Detail), rep, len(bySig[sig]), N, v.Seed)
	}
	// coverage holes
	var holes []string
	for _, ts := range allTS {
		for _, k := range []string{"enc", "dec"} {
			for _, m := range []string{"nil", "default", "shared-default", "shared-base"} {
				if !cover[ts+"/"+k+"/"+m] {
					holes = append(holes, ts+"/"+k+"/"+m)
				}
			}
		}
	}
	if len(holes) > 0 {
		logf("C18: WARNING coverage holes (%d of %d cells without a partner on the same instance): %s", len(holes), 14*2*4, strings.Join(holes, " "))
	}
	if dbg := os.Getenv("VERIF_DEBUG_DUMP"); dbg != "" {
		type dump struct {
			Meta c18Meta
			Ops  []string
			Viol int
		}
		var ds []dump
		for i := range runs {
			ds = append(ds, dump{metas[i], describeOps(&runs[i]), len(outs[i].viols)})
		}
		bts, _ := json.MarshalIndent(ds, "", " ")
		os.WriteFile(dbg, bts, 0o644)
	}
	if stepsDiffer > 0 && nViol == 0 && len(knownMatched) == 0 {
		logf("C18: WARNING %d operations took a different number of steps than alone although no violation was found (harness misalignment?)", stepsDiffer)
	}
	wall := w.secs()
	samples := []interface{}{}
	for i := 0; i < N && i < 3; i++ {
		samples = append(samples, map[string]interface{}{"seed": runs[i].Seed, "shape": metas[i].Shape, "policy": metas[i].Policy, "clients": metas[i].Clients,
			"shared": metas[i].Shared, "pins": metas[i].Pins, "ops": describeOps(&runs[i]), "segments": len(runs[i].Schedule), "switches_executed": outs[i].switches})
	}
	ev := &Evidence{PropertyID: "C18", Tier: o.tier, Seed: int64(o.seed), Level: "exploration", WallS: wall, Violations: nViol,
		Coverage: map[string]interface{}{
			"evaluations":            N,
			"distinct_nontrivial":    len(ilv),
			"rule":                   "one evaluation = one worker process: 2..64 simulated clients calling Encode/Decode on registry codec instances (and private low-level objects) under one explicit serial schedule drawn from VERIF_SEED (pin-and-sweep / round-robin / PCT / random-walk / sequential), plus the enumerated site sweep (codec x {Encode, Decode} x {private, shared, cross-sibling} with client A parked at each write-hot site it reaches), race detector on; distinct = distinct SHA of the executed switch list projected to (task, site); a run is non-trivial when at least one context switch happened inside library code",
			"samples":                samples,
			"runs_per_hour":          float64(N) / runWall * 3600,
			"simulated_steps":        steps,
			"scheduler_switches":     switches,
			"distinct_interleavings": len(ilv),
			"policies":               policies.snapshot(),
			"fault_kinds_fired":      fired.snapshot(),
			"race_reports_raw":       races,
			"distinct_operations":    len(rc.m),
			"coverage_cells_hit":     len(cover),
			"coverage_holes":         holes,
			"probes": map[string]interface{}{
				"shared_parameter_objects_changed_value":                        sharedChg,
				"baton_handoffs_on_contended_library_locks":                     blockedYields,
				"operations_whose_step_count_differs_from_their_solo_reference": stepsDiffer,
			},
			"known_findings_matched": knownMatched,
			"components": map[string]interface{}{
				"real":          []string{"all repository packages (instrumented copy of the working tree)", "go-dicom codec.Registry, transfer.Syntax, BaseParameters, imagetypes", "Go runtime + race detector (ThreadSanitizer)"},
				"simulated":     []string{"caller goroutines and their schedule (serial baton over raw pipe syscalls)", "PixelData source and sink with fault plans"},
				"not_exercised": []string{"go-dicom Transcoder and dataset layer"},
			},
			"calibration_race_reported_with_writer_parked_k_steps_after_store": calib,
			"determinism_selftest_comparisons":                                 detChecked,
			"build_s":                                                          b.BuildS,
			"instrumented":                                                     map[string]interface{}{"sites": len(b.Table.Sites), "hot_sites": len(b.hot), "packages": len(b.Table.Packages), "degraded": b.Table.Degraded, "map_loops_behind_seam": b.Table.MapLoops, "files_with_sync_shimmed": b.Table.SyncShimmed},
			"tree":                                                             b.Tree,
		},
		Assumptions: []string{
			"a serialised interleaving is a legal execution; ThreadSanitizer sees the client goroutines as unordered because baton hand-offs are raw syscalls it does not model",
			"TSan's bounded per-goroutine history: a race is reported with certainty only when the earlier accessor is parked near its access (pin-and-sweep); other schedules detect probabilistically",
			"solo reference = the same operation alone in a fresh process of the same build",
		},
	}
	writeEvidence(ev)
	logf("C18: %d runs in %.1fs (%.0f runs/h), %d distinct interleavings, %d switches, %d known-finding signatures, %d violations", N, runWall, float64(N)/runWall*3600, len(ilv), switches, len(knownMatched), nViol)
	return exit
}

func firstLine(s string) string {
	if i := strings.IndexByte(s, '\n'); i >= 0 {
		return s[:i]
	}
	return s
}

func describeOps(run *spec.Run) []string {
	var out []string
	for ti, t := range run.Tasks {
		for _, op := range t.Ops {
			out = append(out, fmt.Sprintf("client%d:%s %s %dx%dx%d/%d-bit %d frame(s) params=%s", ti, op.Kind, opTarget(&op), op.Info.W, op.Info.H, op.Info.SPP, op.Info.BS, len(op.Frames), op.Params.Mode))
		}
	}
	if len(out) > 12 {
		out = append(out[:12], fmt.Sprintf("… %d more", len(out)-12))
	}
	return out
}

// degradeToSequential replaces a planned schedule by the sequential one that visits the
// clients in the order the plan first mentions them.
func degradeToSequential(run *spec.Run, meta *c18Meta) {
	seen := map[int]bool{}
	var segs []spec.Seg
	for _, sg := range run.Schedule {
		if !seen[sg.Task] {
			seen[sg.Task] = true
			segs = append(segs, spec.Seg{Task: sg.Task, Until: farStep})
		}
	}
	for t := range run.Tasks {
		if !seen[t] {
			segs = append(segs, spec.Seg{Task: t, Until: farStep})
		}
	}
	run.Schedule = segs
	meta.Policy = "sequential(degraded from " + meta.Policy + ")"
}

// genSiteSweep is the enumerated part of C18 (fault enumeration over write-hot sites): for
// every registry codec x {Encode, Decode} x {private differing parameters, one shared
// default object}, client A is parked right at every distinct write-hot site its operation
// reaches (first and last occurrence) while one same-kind and one other-kind client on the
// same codec instance run to completion; then A resumes. On a correct tree an operation
// reaches only a few such sites (parameter extraction, Validate); a change that adds a
// cache, a pool, a lock, a lazily built table or a codec field adds sites, and each is
// visited deterministically instead of by chance.
// tsFamilies groups the syntaxes whose codecs share packages (and so could share a cache).
var tsFamilies = [][]string{{"50", "51", "57", "70"}, {"80", "81"}, {"90", "91", "92", "93", "201", "202", "203"}, {"rle"}}

// siblingTS is the next syntax of the same family (itself when the family has one member).
func siblingTS(ts string) string {
	for _, f := range tsFamilies {
		for i, x := range f {
			if x == ts {
				return f[(i+1)%len(f)]
			}
		}
	}
	return ts
}

func genSiteSweep(b *Build, rc *refCache, o checkOpts, thorough bool) ([]spec.Run, []c18Meta) {
	type tmpl struct {
		ts, kind, variant string
		a, s1, s2         spec.Op
	}
	var ts []tmpl
	var ops []spec.Op
	for ci, codec := range allTS {
		for ki, kind := range []string{"enc", "dec"} {
			for vi, variant := range []string{"private", "shared", "cross"} {
				r := spec.NewRng(spec.SplitMix64(o.seed^0x517E) ^ uint64(ci*16+ki*4+vi))
				in := genInfo(r, codec, genOpt{maxDim: 16})
				mkOn := func(k, c string, in spec.Info) spec.Op {
					op := spec.Op{Kind: k, TS: c, Info: in, Frames: genFrames(r, 1), From: -1, Obj: 1}
					if k == "dec" {
						op.Pre = true
						op.PreKV = genKV(r, c)
					}
					if variant == "shared" {
						op.Params = spec.Params{Mode: "shared-default"}
					} else {
						op.Params = spec.Params{Mode: spec.Pick(r, []string{"default", "base"}), KV: genKV(r, c)}
					}
					return op
				}
				mk := func(k string) spec.Op { return mkOn(k, codec, in) }
				other := "dec"
				if kind == "dec" {
					other = "enc"
				}
				t := tmpl{ts: codec, kind: kind, variant: variant, a: mk(kind)}
				if variant == "cross" {
					// the siblings differ from the pinned call in what a cache could be keyed by: the
					// next codec of the same family on its own description, and the same codec on a
					// description with the other container width
					sib := siblingTS(codec)
					t.s1 = mkOn(kind, sib, genInfo(r, sib, genOpt{maxDim: 16}))
					in2 := in
					for try := 0; try < 12 && in2.BA == in.BA; try++ {
						in2 = genInfo(r, codec, genOpt{maxDim: 16})
					}
					t.s2 = mkOn(kind, codec, in2)
				} else {
					t.s1, t.s2 = mk(kind), mk(other)
				}
				ts = append(ts, t)
				ops = append(ops, t.a, t.s1, t.s2)
			}
		}
	}
	rc.fill(ops, o.procs)
	var runs []spec.Run
	var metas []c18Meta
	for _, t := range ts {
		e := rc.get(&t.a)
		if e == nil || e.err != nil {
			continue
		}
		seen := map[uint32]bool{}
		for _, h := range e.hist {
			site, hot := b.hot[h.Site]
			if !hot || site.Hot != "w" || seen[h.Site] {
				continue
			}
			seen[h.Site] = true
			post := b.Table.Sites[h.Site].Kind == "post"
			occs := []uint64{h.First}
			if h.Last != h.First {
				occs = append(occs, h.Last)
			}
			// park exactly at the site: before the statement for a "pre" site, right after it for a
			// "post" site (a site's recorded step index is the step at which its hook runs)
			_ = post
			deltas := []uint64{0, 1, 2, 4}
			if !thorough {
				deltas = deltas[:1]
			}
			for _, occ := range occs {
				for _, d := range deltas {
					run := spec.Run{Mode: "sched", Seed: o.seed, Gomaxprocs: 4, SortMaps: true,
						Tasks:    []spec.Task{{Ops: []spec.Op{t.a}}, {Ops: []spec.Op{t.s1}}, {Ops: []spec.Op{t.s2}}},
						Schedule: []spec.Seg{{Task: 0, Until: occ + d}, {Task: 1, Until: farStep}, {Task: 2, Until: farStep}, {Task: 0, Until: farStep}}}
					var sum uint64
					for _, op := range []*spec.Op{&t.a, &t.s1, &t.s2} {
						if x := rc.get(op); x != nil {
							sum += x.res.Steps
						}
					}
					run.StepCap = sum*3 + 50_000_000
					runs = append(runs, run)
					metas = append(metas, c18Meta{Shape: "site-sweep/" + t.variant, Policy: "pin-and-sweep(enumerated)", Clients: 3, Shared: t.variant, Focus: []string{t.ts},
						Pins: []string{fmt.Sprintf("task0@%d+%d %s/w", occ, d, b.siteName(h.Site))}})
				}
			}
		}
	}
	return runs, metas
}
