package main

import (
	"verif/sim/spec"
)

// allTS lists the 14 registered transfer syntaxes by short name.
var allTS = []string{"rle", "50", "51", "57", "70", "80", "81", "90", "91", "92", "93", "201", "202", "203"}

var tsUID = map[string]string{
	"rle": "1.2.840.10008.1.2.5", "50": "1.2.840.10008.1.2.4.50", "51": "1.2.840.10008.1.2.4.51",
	"57": "1.2.840.10008.1.2.4.57", "70": "1.2.840.10008.1.2.4.70", "80": "1.2.840.10008.1.2.4.80",
	"81": "1.2.840.10008.1.2.4.81", "90": "1.2.840.10008.1.2.4.90", "91": "1.2.840.10008.1.2.4.91",
	"92": "1.2.840.10008.1.2.4.92", "93": "1.2.840.10008.1.2.4.93", "201": "1.2.840.10008.1.2.4.201",
	"202": "1.2.840.10008.1.2.4.202", "203": "1.2.840.10008.1.2.4.203",
}

// losslessTS are the syntaxes for which decode(encode(x)) must equal x.
var losslessTS = map[string]bool{"rle": true, "57": true, "70": true, "80": true, "90": true, "92": true, "201": true, "202": true}

func isJ2K(ts string) bool {
	switch ts {
	case "90", "91", "92", "93", "201", "202", "203":
		return true
	}
	return false
}

// genOpt steers the frame-description generator.
type genOpt struct {
	maxDim     int
	allowOdd16 bool // BitsAllocated=16 with BitsStored<=8 (the known C10 finding class)
	forceOdd16 bool // always that class
	signed     bool
}

// genInfo draws a frame description inside the domain the syntax supports.
func genInfo(r *spec.Rng, ts string, o genOpt) spec.Info {
	in := spec.Info{SPP: 1, PI: "MONOCHROME2"}
	dims := []int{1, 2, 3, 4, 5, 7, 8, 9, 12, 15, 16, 17, 24, 31, 32, 33, 48, 63, 64, 65, 100, 128, 129, 200, 256}
	pickDim := func() int {
		for {
			d := spec.Pick(r, dims)
			if d <= o.maxDim {
				return d
			}
		}
	}
	in.W, in.H = pickDim(), pickDim()
	if r.Chance(1, 3) {
		in.SPP = 3
		in.PI = "RGB"
	}
	switch ts {
	case "50":
		in.BA, in.BS = 8, 8
		if o.allowOdd16 && r.Chance(1, 3) {
			in.BA, in.BS = 16, r.Range(2, 8)
		}
	case "51":
		if r.Bool() {
			in.BA, in.BS = 8, 8
		} else {
			in.BA, in.BS = 16, 12
		}
		if o.allowOdd16 && r.Chance(1, 4) {
			in.BA, in.BS = 16, r.Range(2, 8)
		}
	case "rle":
		if r.Bool() {
			in.BA = 8
			in.BS = r.Range(2, 8)
		} else {
			in.BA = 16
			in.BS = r.Range(9, 16)
			if o.allowOdd16 && r.Chance(1, 4) {
				in.BS = r.Range(2, 8)
			}
		}
		if in.SPP == 3 {
			in.Planar = r.Intn(2)
		}
	default:
		if r.Bool() {
			in.BA = 8
			in.BS = r.Range(2, 8)
			if r.Bool() {
				in.BS = 8
			}
		} else {
			in.BA = 16
			in.BS = r.Range(9, 16)
			if r.Chance(1, 3) {
				in.BS = 16
			} else if r.Chance(1, 3) {
				in.BS = 12
			}
			if o.allowOdd16 && r.Chance(1, 5) {
				in.BS = r.Range(2, 8)
			}
		}
		if o.signed && isJ2K(ts) && r.Chance(1, 4) {
			in.PR = 1
			in.BS = in.BA // unambiguous container (DESIGN §5 C10)
		}
	}
	if o.forceOdd16 {
		in.BA, in.BS, in.PR = 16, r.Range(2, 8), 0
		if ts == "50" || ts == "51" {
			in.BS = 8
		}
	}
	in.HB = in.BS - 1
	return in
}

func genFrames(r *spec.Rng, n int) []spec.Frame {
	fs := make([]spec.Frame, n)
	for i := range fs {
		fs[i] = spec.Frame{Gen: spec.Pick(r, spec.Gens), Seed: r.U64() >> 1}
		if r.Chance(1, 2) {
			fs[i].Gen = "noise"
		}
	}
	return fs
}

// genKV draws valid parameter values for a syntax.
func genKV(r *spec.Rng, ts string) map[string]interface{} {
	kv := map[string]interface{}{}
	switch ts {
	case "50", "51":
		kv["quality"] = r.Range(1, 100)
	case "57":
		kv["predictor"] = r.Range(0, 7)
	case "81":
		kv["near"] = r.Range(0, 10)
	case "90", "92":
		if r.Bool() {
			kv["numLevels"] = r.Range(0, 6)
		}
		if r.Bool() {
			kv["allowMCT"] = r.Bool()
		}
		if r.Chance(1, 3) {
			kv["progressionOrder"] = r.Range(0, 4)
		}
		if r.Chance(1, 3) {
			kv["rate"] = spec.Pick(r, []int{0, 5, 20, 80, 640})
		}
		if r.Chance(1, 4) {
			kv["numLayers"] = r.Range(1, 4)
		}
	case "91", "93":
		if r.Bool() {
			kv["numLevels"] = r.Range(0, 6)
		}
		if r.Bool() {
			kv["rate"] = spec.Pick(r, []int{5, 10, 20, 40})
		}
		if r.Chance(1, 3) {
			kv["allowMCT"] = r.Bool()
		}
	case "201", "202", "203":
		if r.Bool() {
			kv["blockWidth"] = spec.Pick(r, []int{4, 8, 16, 32, 64})
			kv["blockHeight"] = spec.Pick(r, []int{4, 8, 16, 32, 64})
		}
		if r.Bool() {
			kv["numLevels"] = r.Range(0, 5)
		}
		if ts == "203" {
			kv["quality"] = r.Range(1, 100)
		}
	}
	return kv
}

// pkgTargetFor maps a transfer syntax to the package-level entry point family.
var pkgTargetFor = map[string]string{"50": "baseline", "51": "extended", "57": "lossless", "70": "sv1", "80": "jpegls", "81": "jpeglsnear"}
