package main

import (
	"encoding/json"
	"fmt"
	"os"

	"verif/sim/spec"
)

// cmdReplay rebuilds from the current tree and re-executes exactly the recorded
// workload, fault plan and schedule. It consults no PRNG. Exit 1 iff the
// recorded violation signature recurs.
func cmdReplay(args []string) int {
	if len(args) < 1 {
		usage()
	}
	data, err := os.ReadFile(args[0])
	if err != nil {
		fmt.Fprintln(os.Stderr, err)
		return 2
	}
	var rp spec.Replay
	if err := json.Unmarshal(data, &rp); err != nil {
		fmt.Fprintln(os.Stderr, err)
		return 2
	}
	fmt.Printf("replaying %s: property=%s class=%s\n  signature: %s\n  recorded on tree %s\n", args[0], rp.Property, rp.Class, rp.Signature, rp.Tree)
	recur := false
	switch rp.Property {
	case "C18":
		b := NewBuild("race", "plain")
		rc := newRefCache(b, "plain")
		rc.sortMaps = true
		recur = hasSigC18(b, &rp.Run, rc, rp.Signature)
	case "C10":
		recur = replayC10(&rp)
	case "C08", "C09":
		recur = replayDisk(&rp)
	case "C17":
		recur = replayC17(&rp)
	default:
		fmt.Fprintf(os.Stderr, "unknown property %q in replay file\n", rp.Property)
		return 2
	}
	if recur {
		fmt.Printf("VIOLATION property=%s replay=%s\n", rp.Property, args[0])
		return 1
	}
	fmt.Println("the recorded violation did not recur on the current tree")
	return 0
}
