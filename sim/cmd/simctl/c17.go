package main

import (
	"fmt"
	"os"
	"path/filepath"
	"sort"
	"sync/atomic"
	"time"

	"verif/sim/spec"
)

// seamRun is the explicit replay form of one C17 case: the faulted Encode
// followed by the Decode of whatever it returned.
func seamRun(op spec.Op) spec.Run {
	in, _ := spec.ServedInfo(&op)
	dec := spec.Op{Kind: "dec", TS: op.TS, Info: in, From: 0, Params: spec.Params{Mode: "nil"}}
	return spec.Run{Mode: "history", Tasks: []spec.Task{{Ops: []spec.Op{op, dec}}}, StepCap: 400_000_000, AllocCap: 1 << 30}
}

// seamSigOf executes a seam run and applies the shared oracle.
func seamSigOf(b *Build, r *spec.Run) (string, string) {
	dir := filepath.Join(b.Scratch, fmt.Sprintf("seam-%d", atomic.AddInt64(&diskSeq, 1)))
	defer os.RemoveAll(dir)
	res, info, err := b.execInfo("plain", r, dir, 3*time.Minute)
	if err != nil {
		return "fatal: " + firstLineWith(info.Stderr, "fatal error"), tail(info.Stderr, 400)
	}
	ops := r.Tasks[0].Ops
	enc := &res.Tasks[0][0]
	var dec *spec.OpResult
	if len(res.Tasks[0]) > 1 && !enc.Err && len(enc.Out) > 0 {
		dec = &res.Tasks[0][1]
	}
	sig, _, detail := spec.JudgeSeam(&ops[0], tsUID[ops[0].TS], enc, dec)
	return sig, detail
}

func checkC17(o checkOpts) int {
	w := startWatch()
	b := NewBuild("plain")
	logf("C17: VERIF_SEED=%d tier=%s tree=%s build=%.1fs", o.seed, o.tier, b.Tree, b.BuildS)
	findings := loadFindings()
	cfg := spec.DiskCfg{Prop: "C17", Seed: o.seed, Tier: o.tier, Shards: o.procs, Only: -1, Corpus: "small"}
	if o.tier == "thorough" {
		cfg.Corpus = "full"
	}
	aggc := make(chan *spec.DiskResult, o.procs)
	fatalc := make(chan spec.DiskCase, 64)
	errs := make([]error, o.procs)
	var restarts int64
	t0 := time.Now()
	parallel(o.procs, o.procs, func(i int) { errs[i] = runShard(b, "seam", cfg, i, aggc, fatalc, &restarts) })
	close(aggc)
	close(fatalc)
	batchWall := time.Since(t0).Seconds()
	for _, e := range errs {
		if e != nil {
			infraFail("C17: %v", e)
		}
	}
	agg := &diskAgg{skipped: map[string]uint64{}, faults: map[string]uint64{}, entries: map[string]uint64{}, outcomes: map[string]uint64{},
		probes: map[string]uint64{}, findings: map[string]*spec.DiskFinding{}, entryMs: map[string]float64{}}
	for r := range aggc {
		agg.merge(r)
	}
	for c := range fatalc {
		agg.fatalCases = append(agg.fatalCases, c)
	}
	logf("C17: %d cases in %.1fs; %d distinct signatures before triage; %d process-fatal cases", agg.cases, batchWall, len(agg.findings), len(agg.fatalCases))
	sigs := make([]string, 0, len(agg.findings))
	for s := range agg.findings {
		sigs = append(sigs, s)
	}
	sort.Strings(sigs)
	exit, nViol := 0, 0
	var knownMatched []string
	emit := func(sig, class, detail string, c *spec.DiskCase, count uint64, stack string) {
		if f := knownFor(findings, "C17", sig); f != nil {
			fmt.Printf("KNOWN-FINDING: property=C17 %s — %s (seen %d times)\n", sig, f.Note, count)
			knownMatched = append(knownMatched, sig)
			return
		}
		nViol++
		exit = 1
		v := Violation{Prop: "C17", Class: class, Sig: sig, Detail: detail, Build: "plain", Seed: o.seed, Notes: []string{stack}}
		if c.Op != nil {
			v.Run = seamRun(*c.Op)
		}
		ok := 0
		for i := 0; i < 2 && c.Op != nil; i++ {
			if s, _ := seamSigOf(b, &v.Run); s == sig {
				ok++
			}
		}
		p := writeReplay(&v, fmt.Sprintf("%d/2", ok), b.Tree, "")
		fmt.Printf("VIOLATION property=C17 replay=%s\n  signature: %s\n  detail: %s\n  reproduced: %d/2; seen %d times\n", p, sig, firstLine(detail), ok, count)
	}
	for _, sig := range sigs {
		f := agg.findings[sig]
		d := f.Detail
		if f.Case.Op != nil {
			d += fmt.Sprintf(" [%s %v params=%s faults=%v]", tsUID[f.Case.Op.TS], f.Case.Op.Info, f.Case.Op.Params.Mode, f.Case.Op.SrcFaults)
		}
		emit(sig, f.Class, d, &f.Case, f.Count, f.Stack)
	}
	for i := range agg.fatalCases {
		c := &agg.fatalCases[i]
		emit("fatal: process died in Encode "+c.Entry, "fatal", fmt.Sprintf("%v", c.Faults), c, 1, "")
	}
	samples := []interface{}{}
	for _, c := range agg.samples {
		if c.Op != nil {
			samples = append(samples, map[string]interface{}{"codec": tsUID[c.Op.TS], "info": c.Op.Info, "src_faults": c.Op.SrcFaults, "sink_faults": c.Op.SinkFaults, "params": c.Op.Params.Mode, "frames": len(c.Op.Frames)})
		}
	}
	if len(samples) == 0 {
		samples = append(samples, "no sample retained")
	}
	ev := &Evidence{PropertyID: "C17", Tier: o.tier, Seed: int64(o.seed), Level: "fault_enumeration", WallS: w.secs(), Violations: nViol,
		Coverage: map[string]interface{}{
			"evaluations":            agg.cases,
			"distinct_nontrivial":    agg.distinct,
			"rule":                   "one evaluation = one Encode call of a registry codec through the simulated PixelData source/sink with one fault (enumerated, not sampled): short read of every length from 1 byte short down to empty, empty/nil frame, transient GetFrame error, long frame, AddFrame error, FrameCount disagreeing, zero frames, missing FrameInfo, every FrameInfo field set to each of 19 boundary values, foreign / ill-typed / out-of-range parameters, and every parameter set singly to the in-range values at and next to the ends of its documented range (both parameter implementations); followed by Decode of any stream returned. Every case differs from the valid call, hence non-trivial; distinct = distinct (codec, description, fault)",
			"samples":                samples,
			"exhaustive":             true,
			"fault_kinds_fired":      agg.faults,
			"entry_points":           agg.entries,
			"outcomes":               agg.outcomes,
			"simulated_steps":        agg.steps,
			"cases_per_hour":         float64(agg.cases) / batchWall * 3600,
			"known_findings_matched": knownMatched,
			"scope":                  "PARTIAL BY DESIGN: only the buffer-length, frame-count, frame-description and parameter clauses of C17 as they arrive through the PixelData/Parameters seam; the numeric-limit argument tuples of the package-level Encode functions are a pure-input property and are not decided here",
			"components": map[string]interface{}{
				"real":      []string{"Encode and Decode of the 14 registry codecs (instrumented copy of the working tree)"},
				"simulated": []string{"PixelData source and sink with one injected fault per call", "Parameters objects (foreign, ill-typed, out-of-range)"},
			},
			"build_s": b.BuildS, "tree": b.Tree,
		},
		Assumptions: []string{
			"'shorter than required' is judged against the container size only for frame descriptions where ceil(BitsStored/8) = ceil(BitsAllocated/8)",
		},
	}
	writeEvidence(ev)
	logf("C17: %d known-finding signatures, %d violations, %.1fs", len(knownMatched), nViol, w.secs())
	return exit
}

func replayC17(rp *spec.Replay) bool {
	b := NewBuild("plain")
	s, d := seamSigOf(b, &rp.Run)
	if d != "" {
		fmt.Println("  " + d)
	}
	return s == rp.Signature
}
