//go:build !verif

package verifrt

// Enabled reports whether the hooks are compiled in.
const Enabled = false

// Step is a no-op without the verif tag.
func Step(site uint32) {}

// N returns n unchanged without the verif tag.
func N(site uint32, esz uintptr, n int) int { return n }
