// Package vsync stands in for package sync inside the instrumented scratch copy
// (DESIGN §3.1): the import path "sync" of library files is rewritten to this
// package. Every type wraps the REAL primitive, so the race detector still sees
// the real acquire/release edges; the only difference is that a client that
// would block on a lock held by a parked client hands the baton on instead of
// blocking the whole serialised process.
package vsync

import (
	"sync"

	"github.com/cocosip/go-dicom-codecs/verifrt"
)

// Locker mirrors sync.Locker.
type Locker = sync.Locker

// Pool, Map, WaitGroup and Cond are the real things (they do not block a
// serialised client indefinitely on their own, or are outside the scheduler's
// control anyway: a library that waits on goroutines is reported SIM-DEGRADED).
type (
	Pool      = sync.Pool
	Map       = sync.Map
	WaitGroup = sync.WaitGroup
	Cond      = sync.Cond
)

// NewCond mirrors sync.NewCond.
func NewCond(l Locker) *Cond { return sync.NewCond(l) }

// Mutex wraps sync.Mutex.
type Mutex struct{ m sync.Mutex }

func (m *Mutex) Lock() {
	for !m.m.TryLock() {
		verifrt.YieldBlocked()
	}
}
func (m *Mutex) Unlock()       { m.m.Unlock() }
func (m *Mutex) TryLock() bool { return m.m.TryLock() }

// RWMutex wraps sync.RWMutex.
type RWMutex struct{ m sync.RWMutex }

func (m *RWMutex) Lock() {
	for !m.m.TryLock() {
		verifrt.YieldBlocked()
	}
}
func (m *RWMutex) Unlock() { m.m.Unlock() }
func (m *RWMutex) RLock() {
	for !m.m.TryRLock() {
		verifrt.YieldBlocked()
	}
}
func (m *RWMutex) RUnlock()        { m.m.RUnlock() }
func (m *RWMutex) TryLock() bool   { return m.m.TryLock() }
func (m *RWMutex) TryRLock() bool  { return m.m.TryRLock() }
func (m *RWMutex) RLocker() Locker { return (*rlocker)(m) }

type rlocker RWMutex

func (r *rlocker) Lock()   { (*RWMutex)(r).RLock() }
func (r *rlocker) Unlock() { (*RWMutex)(r).RUnlock() }

// Once wraps sync.Once; the function runs as a non-preemptible section so that
// no client is parked while holding the Once's internal lock.
type Once struct{ o sync.Once }

func (o *Once) Do(f func()) {
	verifrt.NoPreemptEnter()
	defer verifrt.NoPreemptLeave()
	o.o.Do(f)
}

// OnceFunc / OnceValue / OnceValues mirror the sync helpers with the same rule.
func OnceFunc(f func()) func() {
	g := sync.OnceFunc(f)
	return func() {
		verifrt.NoPreemptEnter()
		defer verifrt.NoPreemptLeave()
		g()
	}
}

func OnceValue[T any](f func() T) func() T {
	g := sync.OnceValue(f)
	return func() T {
		verifrt.NoPreemptEnter()
		defer verifrt.NoPreemptLeave()
		return g()
	}
}

func OnceValues[T1, T2 any](f func() (T1, T2)) func() (T1, T2) {
	g := sync.OnceValues(f)
	return func() (T1, T2) {
		verifrt.NoPreemptEnter()
		defer verifrt.NoPreemptLeave()
		return g()
	}
}
