package verifrt

import "unsafe"

//go:norace
func ptr(b *[1]byte) unsafe.Pointer { return unsafe.Pointer(b) }
