// Package verifrt is the hook runtime spliced into a scratch copy of the
// repository under test (DESIGN §3.2). It is never part of /repo.
//
// Everything that runs on a library call path is //go:norace: it does not
// allocate, takes no locks, draws from no PRNG and reads no clock, and it is
// invisible to the race detector, so it creates no happens-before edge between
// simulated clients.
package verifrt

import (
	"cmp"
	"slices"
	"syscall"
)

// TaskState is one simulated client (a real goroutine that runs only when the
// serial scheduler has handed it the baton).
type TaskState struct {
	ID          int
	Steps       uint64 // this task's own step clock
	NextPreempt uint64 // yield when Steps reaches this value (0 = never)
	Finished    bool
	blocked     uint64
	rfd, wfd    int
}

// Seg is one segment of an explicit schedule.
type Seg struct {
	Task  int
	Until uint64
}

// Switch is one executed context switch.
type Switch struct {
	From   int
	AtStep uint64
	Site   uint32
	To     int
}

// SiteRec is a histogram record.
type SiteRec struct {
	Count, First, Last uint64
}

// Sentinel is the private panic value used to end a runaway operation
// deterministically; it is distinguishable from any library panic.
type Sentinel struct {
	Kind string // "step" | "alloc" | "alloctotal"
	Site uint32
	Val  uint64
}

func (s *Sentinel) Error() string { return "verifrt sentinel: " + s.Kind }

const never = ^uint64(0)

var (
	Cur   *TaskState
	Total uint64 // global step clock ("simulated time")

	StepCap       uint64 = never
	AllocCap      uint64 = never // largest single make() allowed, bytes
	AllocTotalCap uint64 = never
	AllocTotal    uint64
	AllocMax      uint64
	AllocMaxSite  uint32
	Makes         uint64

	HistOn bool
	Hist   []SiteRec

	Tasks    []*TaskState
	Segs     []Seg
	segIdx   int
	Switches []Switch
	mainR    int
	mainW    int
	Solo     TaskState // pseudo task used by the single-task modes

	// NoPreempt > 0: the current task is inside a section that must not be
	// parked (sync.Once.Do); a due preemption is retried at the next step.
	NoPreempt int
	// BlockedYields counts baton hand-offs caused by a contended lock.
	BlockedYields uint64
)

// ResetOp clears the per-operation ledgers.
//
//go:norace
func ResetOp() {
	AllocTotal, AllocMax, AllocMaxSite, Makes = 0, 0, 0, 0
}

// ResetClock sets the global step clock to zero.
//
//go:norace
func ResetClock() { Total = 0 }

// EnableHist allocates the per-site histogram.
func EnableHist() {
	Hist = make([]SiteRec, NumSites+1)
	HistOn = true
}

// NewTask registers a simulated client. Called by main before any task runs.
func NewTask(id int) *TaskState {
	var p [2]int
	if err := syscall.Pipe(p[:]); err != nil {
		panic(err)
	}
	t := &TaskState{ID: id, rfd: p[0], wfd: p[1]}
	for len(Tasks) <= id {
		Tasks = append(Tasks, nil)
	}
	Tasks[id] = t
	return t
}

// InitSched installs the explicit schedule. Called by main before any task runs.
func InitSched(segs []Seg) {
	var p [2]int
	if err := syscall.Pipe(p[:]); err != nil {
		panic(err)
	}
	mainR, mainW = p[0], p[1]
	Segs = segs
	segIdx = 0
	Switches = make([]Switch, 0, 4096)
}

//go:norace
func park(fd int) {
	var b [1]byte
	for {
		n, _, e := syscall.Syscall(syscall.SYS_READ, uintptr(fd), uintptr(ptr(&b)), 1)
		if e == syscall.EINTR || e == syscall.EAGAIN {
			continue
		}
		if int(n) == 1 {
			return
		}
		if e != 0 {
			// cannot continue deterministically
			syscall.Syscall(syscall.SYS_EXIT_GROUP, 97, 0, 0)
		}
	}
}

//go:norace
func wake(fd int) {
	b := [1]byte{1}
	for {
		n, _, e := syscall.Syscall(syscall.SYS_WRITE, uintptr(fd), uintptr(ptr(&b)), 1)
		if e == syscall.EINTR || e == syscall.EAGAIN {
			continue
		}
		if int(n) == 1 {
			return
		}
		syscall.Syscall(syscall.SYS_EXIT_GROUP, 98, 0, 0)
	}
}

//go:norace
func pickNext() *TaskState {
	for segIdx < len(Segs) {
		s := Segs[segIdx]
		if s.Task >= 0 && s.Task < len(Tasks) {
			t := Tasks[s.Task]
			if t != nil && !t.Finished && t.Steps < s.Until {
				t.NextPreempt = s.Until
				return t
			}
		}
		segIdx++
	}
	for _, t := range Tasks {
		if t != nil && !t.Finished {
			t.NextPreempt = 0
			return t
		}
	}
	return nil
}

//go:norace
func yieldAt(site uint32) {
	t := Cur
	segIdx++
	next := pickNext()
	if next == nil || next == t {
		return
	}
	if len(Switches) < cap(Switches) {
		Switches = append(Switches, Switch{t.ID, t.Steps, site, next.ID})
	}
	Cur = next
	wake(next.wfd)
	park(t.rfd)
}

// TaskBegin parks the calling goroutine until the scheduler picks it.
//
//go:norace
func TaskBegin(t *TaskState) { park(t.rfd) }

// TaskEnd hands the baton on and parks until main releases everybody.
//
//go:norace
func TaskEnd(t *TaskState) {
	t.Finished = true
	next := pickNext()
	if next == nil {
		Cur = nil
		wake(mainW)
	} else {
		if len(Switches) < cap(Switches) {
			Switches = append(Switches, Switch{t.ID, t.Steps, 0, next.ID})
		}
		Cur = next
		wake(next.wfd)
	}
	park(t.rfd)
}

// RunSched starts the first task and returns when every task has finished.
//
//go:norace
func RunSched() {
	next := pickNext()
	if next == nil {
		return
	}
	Cur = next
	wake(next.wfd)
	park(mainR)
	Cur = nil
}

// ReleaseAll lets the parked, finished task goroutines exit.
//
//go:norace
func ReleaseAll() {
	for _, t := range Tasks {
		if t != nil {
			wake(t.wfd)
		}
	}
}

// SoloBegin makes the pseudo task current (single-task modes).
//
//go:norace
func SoloBegin() {
	Solo.NextPreempt = 0
	Cur = &Solo
}

// SoloSteps returns the pseudo task's clock.
//
//go:norace
func SoloSteps() uint64 { return Solo.Steps }

// CurSteps returns the current task's clock (0 when no task is installed).
//
//go:norace
func CurSteps() uint64 {
	if Cur == nil {
		return 0
	}
	return Cur.Steps
}

// Ledger returns the allocation ledger of the current operation.
//
//go:norace
func Ledger() (total, max uint64, site uint32, makes uint64) {
	return AllocTotal, AllocMax, AllocMaxSite, Makes
}

// SortMaps makes MapKeys return keys in sorted order (exactly repeatable
// schedules); otherwise Go's native randomised order is kept.
var SortMaps bool

// MapKeys is the seam for hash-map iteration order (see instr.mapRange).
func MapKeys[M ~map[K]V, K cmp.Ordered, V any](m M) []K {
	ks := make([]K, 0, len(m))
	for k := range m {
		ks = append(ks, k)
	}
	if SortMaps {
		slices.Sort(ks)
	}
	return ks
}

// NoPreemptEnter / NoPreemptLeave bracket a section in which the current task is not parked.
//
//go:norace
func NoPreemptEnter() { NoPreempt++ }

//go:norace
func NoPreemptLeave() {
	if NoPreempt > 0 {
		NoPreempt--
	}
}

// Deadlock is the panic value raised when a client waits for a lock that no
// other client can ever release.
type Deadlock struct{ Task int }

func (d *Deadlock) Error() string {
	return "verifrt: deadlock: every unfinished client is blocked on a lock"
}

// YieldBlocked is called by the sync shim when a lock is contended: the holder
// must be a parked client, so the baton goes to the next unfinished client
// (round robin from the caller) without consuming the explicit schedule. With a
// single client the lock can never be released: that is a deadlock.
//
//go:norace
func YieldBlocked() {
	t := Cur
	if t == nil || t == &Solo || len(Tasks) == 0 {
		panic(&Deadlock{-1})
	}
	n := len(Tasks)
	var next *TaskState
	for k := 1; k < n; k++ {
		c := Tasks[(t.ID+k)%n]
		if c != nil && !c.Finished {
			next = c
			break
		}
	}
	if next == nil {
		panic(&Deadlock{t.ID})
	}
	t.blocked++
	if t.blocked > 1_000_000 {
		panic(&Deadlock{t.ID})
	}
	BlockedYields++
	if len(Switches) < cap(Switches) {
		Switches = append(Switches, Switch{t.ID, t.Steps, 0, next.ID})
	}
	if next.NextPreempt != 0 && next.NextPreempt <= next.Steps {
		next.NextPreempt = 0
	}
	Cur = next
	wake(next.wfd)
	park(t.rfd)
}
