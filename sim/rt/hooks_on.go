//go:build verif

package verifrt

// Enabled reports whether the hooks are compiled in.
const Enabled = true

// Step is spliced after the opening brace of every function and loop body and
// around statements that touch shared candidates. It ticks the simulated clock.
//
//go:norace
func Step(site uint32) {
	Total++
	if t := Cur; t != nil {
		t.Steps++
		if HistOn {
			h := &Hist[site]
			if h.Count == 0 {
				h.First = t.Steps
			}
			h.Count++
			h.Last = t.Steps
		}
		if t.NextPreempt != 0 && t.Steps >= t.NextPreempt && NoPreempt == 0 {
			yieldAt(site)
		}
	}
	if Total > StepCap {
		StepCap = never
		panic(&Sentinel{"step", site, Total})
	}
}

// N is spliced around the size argument of make([]T, n): allocation accounting
// with a hard ceiling that fires before the allocation happens.
//
//go:norace
func N(site uint32, esz uintptr, n int) int {
	if n > 0 {
		b := uint64(n) * uint64(esz)
		Makes++
		AllocTotal += b
		if b > AllocMax {
			AllocMax, AllocMaxSite = b, site
		}
		if b > AllocCap {
			panic(&Sentinel{"alloc", site, b})
		}
		if AllocTotal > AllocTotalCap {
			AllocTotalCap = never
			panic(&Sentinel{"alloctotal", site, AllocTotal})
		}
	}
	return n
}
