package spec

import "fmt"

// ServedInfo returns the frame description as the library saw it (after an
// info-corrupt fault).
func ServedInfo(op *Op) (Info, bool) {
	in := op.Info
	for _, f := range op.SrcFaults {
		switch f.Kind {
		case "noinfo":
			return in, false
		case "info-corrupt":
			v := f.N & 0xFFFF
			switch f.F {
			case "Rows":
				in.H = v
			case "Columns":
				in.W = v
			case "BitsAllocated":
				in.BA = v
			case "BitsStored":
				in.BS = v
			case "HighBit":
				in.HB = v
			case "SamplesPerPixel":
				in.SPP = v
			case "PixelRepresentation":
				in.PR = v
			case "PlanarConfiguration":
				in.Planar = v
			}
		}
	}
	return in, true
}

// JudgeSeam is the C17 oracle for one faulted Encode through the PixelData
// seam (DESIGN §5 C17): never a panic; a buffer shorter than the requested
// geometry needs must be rejected; a returned stream must decode to exactly the
// requested geometry. ("" = held.)
func JudgeSeam(op *Op, uid string, enc *OpResult, dec *OpResult) (sig, class, detail string) {
	if enc.Panic != "" && len(enc.PanicKind) >= 8 && enc.PanicKind[:8] == "sentinel" {
		return "", "", ""
	}
	if enc.Panic != "" {
		return fmt.Sprintf("panic: %s [%s]", enc.PanicFn, enc.PanicKind), "panic", fmt.Sprintf("Encode panicked: %s at %s", enc.Panic, enc.PanicLoc)
	}
	if enc.Err {
		return "", "", ""
	}
	in, ok := ServedInfo(op)
	if !ok {
		return fmt.Sprintf("accepts-missing-frame-info: %s", uid), "accepts", "Encode succeeded although GetFrameInfo returned nil"
	}
	if (in.BS+7)/8 != (in.BA+7)/8 {
		return "", "", "" // container ambiguity: belongs to C10/I5's known finding, not judged here
	}
	need := in.W * in.H * in.SPP * ((in.BA + 7) / 8)
	for i, f := range enc.In {
		if i >= len(enc.Out) {
			break
		}
		if len(f) < need {
			return fmt.Sprintf("accepts-short-buffer: %s", uid), "accepts",
				fmt.Sprintf("Encode returned a stream for frame %d of %d bytes where %dx%dx%d at %d bits allocated needs %d", i, len(f), in.W, in.H, in.SPP, in.BA, need)
		}
	}
	if need == 0 && len(enc.Out) > 0 {
		return fmt.Sprintf("accepts-empty-geometry: %s", uid), "accepts", fmt.Sprintf("Encode returned a stream for a %dx%dx%d image at %d bits", in.W, in.H, in.SPP, in.BA)
	}
	if dec == nil || len(enc.Out) == 0 {
		return "", "", ""
	}
	if dec.Panic != "" && !(len(dec.PanicKind) >= 8 && dec.PanicKind[:8] == "sentinel") {
		return fmt.Sprintf("mis-declared-stream: %s decode-panics", uid), "geometry", "the stream Encode returned makes Decode panic: " + dec.Panic + " at " + dec.PanicLoc
	}
	if dec.Err {
		// the signature names the class of input and the normalised rejection, so that a known
		// finding about one class (say, samples wider than the declared BitsStored) does not
		// cover a different way of returning an undecodable stream
		return fmt.Sprintf("mis-declared-stream: %s undecodable [%s] %s", uid, inputClass(in, enc.In), normErr(dec.ErrText)), "geometry",
			"the stream Encode returned is rejected by Decode of the same codec: " + dec.ErrText
	}
	want := need
	if uid == "1.2.840.10008.1.2.5" && want%2 == 1 {
		want++
	}
	for i, f := range dec.Out {
		if len(f) != want {
			return fmt.Sprintf("mis-declared-stream: %s size", uid), "geometry",
				fmt.Sprintf("decoding the returned stream gives frame %d of %d bytes, requested geometry %dx%dx%d at %d bits allocated = %d bytes", i, len(f), in.W, in.H, in.SPP, in.BA, want)
		}
	}
	return "", "", ""
}

// inputClass names what is unusual about the frames an Encode accepted.
func inputClass(in Info, frames [][]byte) string {
	if in.BS > 0 && in.BS < 8*((in.BA+7)/8) {
		lim := uint32(1) << uint(in.BS)
		for _, f := range frames {
			if in.BA <= 8 {
				for _, b := range f {
					if uint32(b) >= lim {
						return "samples-exceed-BitsStored"
					}
				}
			} else if in.BA <= 16 {
				for i := 0; i+1 < len(f); i += 2 {
					if uint32(f[i])|uint32(f[i+1])<<8 >= lim {
						return "samples-exceed-BitsStored"
					}
				}
			}
		}
	}
	switch {
	case in.W == 1 && in.H == 1:
		return "one-pixel"
	case in.W == 1:
		return "one-column"
	case in.H == 1:
		return "one-row"
	}
	return "in-range-input"
}

// normErr reduces an error text to its shape: digit runs become N, at most 72 bytes.
func normErr(s string) string {
	out := make([]byte, 0, len(s))
	prevDigit := false
	for i := 0; i < len(s); i++ {
		c := s[i]
		if c >= '0' && c <= '9' {
			if !prevDigit {
				out = append(out, 'N')
			}
			prevDigit = true
			continue
		}
		prevDigit = false
		if c < 0x20 {
			c = ' '
		}
		out = append(out, c)
	}
	if len(out) > 72 {
		out = out[:72]
	}
	return string(out)
}
