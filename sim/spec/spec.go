// Package spec is the vocabulary shared by the orchestrator (simctl) and the
// worker: operations, simulated-environment fault plans, schedules, results and
// the replay-file format. It imports nothing from the repository under test.
package spec

import (
	"crypto/sha256"
	"encoding/hex"
	"encoding/json"
)

// Info mirrors imagetypes.FrameInfo.
type Info struct {
	W      int    `json:"w"`
	H      int    `json:"h"`
	BA     int    `json:"ba"`
	BS     int    `json:"bs"`
	HB     int    `json:"hb"`
	SPP    int    `json:"spp"`
	PR     int    `json:"pr"`
	Planar int    `json:"planar"`
	PI     string `json:"pi,omitempty"`
}

// FrameLen is Rows*Columns*SamplesPerPixel*ceil(BitsAllocated/8).
func (i Info) FrameLen() int {
	return i.W * i.H * i.SPP * ((i.BA + 7) / 8)
}

// Frame is either a literal byte string or a generator recipe that both sides
// materialise identically from (Info, Gen, Seed).
type Frame struct {
	Gen  string `json:"gen,omitempty"` // noise|const|ramp|checker|sparse|zero|max
	Seed uint64 `json:"seed,omitempty"`
	Lit  []byte `json:"lit,omitempty"`
	// IsLit distinguishes an empty literal from "use the generator".
	IsLit bool `json:"islit,omitempty"`
}

// Fault is one entry of a PixelData fault plan (DESIGN §3.5).
type Fault struct {
	Kind string `json:"kind"`
	K    int    `json:"k"`           // frame index / call index the fault applies to
	N    int    `json:"n,omitempty"` // bytes short/long, count delta, field value ...
	F    string `json:"f,omitempty"` // info-corrupt: field name
}

// Params describes the parameters object handed to Encode/Decode.
//
//	Mode nil            – pass nil
//	Mode default        – private object from codec.GetDefaultParameters(), KV applied with SetParameter
//	Mode base           – private codec.BaseParameters carrying KV
//	Mode shared-default – the one object GetDefaultParameters() returned to the harness at set-up, shared by all clients
//	Mode shared-base    – one shared BaseParameters carrying the defaults as valid keys
//	Mode foreign        – a Parameters implementation of another codec
//	Mode illtyped       – a Parameters whose GetParameter returns unexpected dynamic types
type Params struct {
	Mode string                 `json:"mode"`
	KV   map[string]interface{} `json:"kv,omitempty"`
	// Obj > 0 names a long-lived private parameters object reused across
	// operations of one history (mode history only).
	Obj int `json:"obj,omitempty"`
}

// J2KEnc configures a long-lived jpeg2000.Encoder object.
type J2KEnc struct {
	Levels    int     `json:"levels"`
	Lossless  bool    `json:"lossless"`
	CBW       int     `json:"cbw,omitempty"`
	CBH       int     `json:"cbh,omitempty"`
	Layers    int     `json:"layers,omitempty"`
	Prog      int     `json:"prog,omitempty"`
	MCT       bool    `json:"mct"`
	Quality   int     `json:"quality,omitempty"`
	Ratio     float64 `json:"ratio,omitempty"`
	PCRD      bool    `json:"pcrd,omitempty"`
	AppendLL  bool    `json:"appendll,omitempty"`
	TileW     int     `json:"tilew,omitempty"`
	TileH     int     `json:"tileh,omitempty"`
	HT        bool    `json:"ht,omitempty"`
	ROI       []int   `json:"roi,omitempty"`       // x0,y0,w,h,shift
	Binding   bool    `json:"binding,omitempty"`   // Part 2 MCT binding with offsets (2+ components)
	BindOff   []int32 `json:"bindoff,omitempty"`   // offsets for the binding
	CustomMCT bool    `json:"custommct,omitempty"` // custom matrix via MCTMatrix
	PrecW     int     `json:"precw,omitempty"`     // custom precinct partition (power of two)
	PrecH     int     `json:"prech,omitempty"`
}

// J2KDec configures a long-lived jpeg2000.Decoder object.
type J2KDec struct {
	HT        bool `json:"ht,omitempty"`
	Resilient bool `json:"resilient,omitempty"`
	Strict    bool `json:"strict,omitempty"`
}

// Op is one operation of the workload.
type Op struct {
	// Kind: enc | dec (registry codec named by TS)
	//       j2kenc | j2kdec (long-lived low-level object in slot Obj)
	//       pkgenc | pkgdec (package-level function named by Target)
	Kind   string  `json:"kind"`
	TS     string  `json:"ts,omitempty"`
	Target string  `json:"target,omitempty"`
	Info   Info    `json:"info"`
	Frames []Frame `json:"frames,omitempty"`
	// From >= 0: source frames are the frames the sink of operation From (same
	// task / history) received. FromSel optionally selects/permutes them.
	From    int   `json:"from"`
	FromSel []int `json:"fromsel,omitempty"`
	// Pre: source frames are produced at set-up time by encoding Frames with the
	// registry codec TS and nil parameters (sched mode: before any task exists).
	Pre    bool                   `json:"pre,omitempty"`
	PreKV  map[string]interface{} `json:"prekv,omitempty"`
	Params Params                 `json:"params"`
	Obj    int                    `json:"obj,omitempty"`
	Enc    *J2KEnc                `json:"j2kenc,omitempty"`
	Dec    *J2KDec                `json:"j2kdec,omitempty"`
	Cut    int                    `json:"cut,omitempty"`  // low-level decode ops: drop this many bytes from the end of every source frame (torn read)
	Near   int                    `json:"near,omitempty"` // pkgenc args
	Q      int                    `json:"q,omitempty"`
	Pred   int                    `json:"pred,omitempty"`

	SrcFaults  []Fault `json:"srcfaults,omitempty"`
	SinkFaults []Fault `json:"sinkfaults,omitempty"`
	// SinkRetains: the sink keeps the very slice it is given.
	SinkRetains bool `json:"sinkretains,omitempty"`
	// NilInfo etc. are expressed as faults on the source.
}

// Seg is one segment of an explicit schedule: run Task until its own step
// counter reaches Until (or it finishes), then move to the next segment.
type Seg struct {
	Task  int    `json:"t"`
	Until uint64 `json:"u"`
}

// Sw is one executed context switch.
type Sw struct {
	From int    `json:"f"`
	At   uint64 `json:"a"`
	Site uint32 `json:"s"`
	To   int    `json:"t"`
}

// Task is one simulated client.
type Task struct {
	Ops []Op `json:"ops"`
}

// Run is the input of one worker process.
type Run struct {
	Mode     string `json:"mode"` // solo | sched | history
	Seed     uint64 `json:"seed"`
	Tasks    []Task `json:"tasks"`
	Schedule []Seg  `json:"schedule,omitempty"`
	StepCap  uint64 `json:"stepcap,omitempty"`
	AllocCap uint64 `json:"alloccap,omitempty"`
	// WantHist asks for the per-site execution histogram (solo).
	WantHist bool `json:"wanthist,omitempty"`
	// SortMaps: iterate the library's hash maps in sorted key order (sched mode and its references).
	SortMaps bool `json:"sortmaps,omitempty"`
	// Gomaxprocs is applied by the worker at start (0 = leave).
	Gomaxprocs int `json:"gomaxprocs,omitempty"`
}

// SiteStat is the histogram entry of one instrumentation site in a solo run.
type SiteStat struct {
	Site  uint32 `json:"s"`
	Count uint64 `json:"c"`
	First uint64 `json:"f"` // task step index of first execution
	Last  uint64 `json:"l"`
}

// OpResult is what one operation did.
type OpResult struct {
	Err          bool           `json:"err"`
	ErrText      string         `json:"errtext,omitempty"`
	Panic        string         `json:"panic,omitempty"` // panic value text
	PanicFn      string         `json:"panicfn,omitempty"`
	PanicLoc     string         `json:"panicloc,omitempty"`
	PanicKind    string         `json:"panickind,omitempty"` // index|slice|divide|nil|makeslice|other|sentinel-step|sentinel-alloc
	Stack        string         `json:"stack,omitempty"`
	Out          [][]byte       `json:"out,omitempty"` // frames the sink received, in order
	OutMeta      []int          `json:"outmeta,omitempty"`
	AddCalls     int            `json:"addcalls"`
	AddAfterErr  int            `json:"addaftererr,omitempty"` // AddFrame calls after the sink returned an error
	GetCalls     int            `json:"getcalls"`
	Fired        map[string]int `json:"fired,omitempty"`
	SrcIntact    bool           `json:"srcintact"`
	InfoIntact   bool           `json:"infointact"`
	SinkIntact   bool           `json:"sinkintact"` // retained slices unchanged at end of run
	ParamsBefore string         `json:"pbefore,omitempty"`
	ParamsAfter  string         `json:"pafter,omitempty"`
	Steps        uint64         `json:"steps"`
	StartStep    uint64         `json:"startstep"`
	AllocMax     uint64         `json:"allocmax,omitempty"`
	AllocTotal   uint64         `json:"alloctotal,omitempty"`
	// Input actually served to the library (after source faults) so that a
	// fresh-world reference can be built.
	In       [][]byte               `json:"in,omitempty"`
	Count    int                    `json:"count,omitempty"`    // what FrameCount() reported
	InfoSeen *Info                  `json:"infoseen,omitempty"` // corrupted FrameInfo as served
	ParamsIn map[string]interface{} `json:"paramsin,omitempty"` // parameter values at call time
}

// Result is the output of one worker process.
type Result struct {
	Tasks        [][]OpResult      `json:"tasks"`
	Switches     []Sw              `json:"switches,omitempty"` // executed context switches
	TotalSteps   uint64            `json:"totalsteps"`
	Hist         []SiteStat        `json:"hist,omitempty"`
	SharedBefore map[string]string `json:"sharedbefore,omitempty"`
	SharedAfter  map[string]string `json:"sharedafter,omitempty"`
	Fatal        string            `json:"fatal,omitempty"`
	// BlockedYields counts baton hand-offs caused by a contended lock (sync shim).
	BlockedYields uint64 `json:"blockedyields,omitempty"`
}

// Replay is the self-contained replay file (DESIGN §3.7).
type Replay struct {
	Property      string   `json:"property"`
	Class         string   `json:"class"`
	Signature     string   `json:"signature"`
	Detail        string   `json:"detail,omitempty"`
	Seed          uint64   `json:"seed"`
	Build         string   `json:"build"` // race | plain | plain+noinstr
	Tree          string   `json:"tree,omitempty"`
	Run           Run      `json:"run"`
	Reproduced    string   `json:"reproduced,omitempty"`
	MinimisedFrom string   `json:"minimised_from,omitempty"`
	Notes         []string `json:"notes,omitempty"`
}

// Hash returns a stable hash of any JSON-serialisable value.
func Hash(v interface{}) string {
	b, _ := json.Marshal(v)
	s := sha256.Sum256(b)
	return hex.EncodeToString(s[:12])
}

// SplitMix64 is the seed-derivation function (DESIGN §4).
func SplitMix64(x uint64) uint64 {
	x += 0x9E3779B97F4A7C15
	z := x
	z = (z ^ (z >> 30)) * 0xBF58476D1CE4E5B9
	z = (z ^ (z >> 27)) * 0x94D049BB133111EB
	return z ^ (z >> 31)
}

// Rng is a small xorshift64* generator; the only PRNG in the machinery.
type Rng struct{ s uint64 }

func NewRng(seed uint64) *Rng {
	s := SplitMix64(seed)
	if s == 0 {
		s = 0x1234567
	}
	return &Rng{s}
}
func (r *Rng) U64() uint64 {
	r.s ^= r.s >> 12
	r.s ^= r.s << 25
	r.s ^= r.s >> 27
	return r.s * 0x2545F4914F6CDD1D
}
func (r *Rng) Intn(n int) int {
	if n <= 0 {
		return 0
	}
	return int(r.U64() % uint64(n))
}
func (r *Rng) Range(lo, hi int) int     { return lo + r.Intn(hi-lo+1) }
func (r *Rng) Bool() bool               { return r.U64()&1 == 1 }
func (r *Rng) Chance(num, den int) bool { return r.Intn(den) < num }
func (r *Rng) Child(tag uint64) *Rng    { return NewRng(r.U64() ^ SplitMix64(tag)) }
func Pick[T any](r *Rng, xs []T) T      { return xs[r.Intn(len(xs))] }
