package spec

// DiskCfg configures one shard of a storage-fault batch (mode disk, DESIGN §5
// C08/C09) or of the PixelData-seam batch (mode seam, C17).
type DiskCfg struct {
	Prop    string `json:"prop"` // C08 | C09 | C17
	Seed    uint64 `json:"seed"`
	Tier    string `json:"tier"`
	Shard   int    `json:"shard"`
	Shards  int    `json:"shards"`
	StartAt uint64 `json:"startat,omitempty"` // resume after a process-fatal case
	Only    int64  `json:"only"`              // >= 0: run exactly this case index and return it explicitly
	// MaxSampled bounds the number of sampled (non-enumerated) cases in this shard.
	MaxSampled uint64 `json:"maxsampled"`
	// DeadlineS: stop generating sampled cases after this much wall time (enumerated cases always finish).
	DeadlineS float64 `json:"deadlines"`
	StepCap   uint64  `json:"stepcap"`
	Journal   string  `json:"journal"`
	TestData  string  `json:"testdata,omitempty"` // path of the copy's test-data directory
	Corpus    string  `json:"corpus"`             // small | full
}

// DiskCase is one explicit case: an entry point and the bytes it is pointed at.
type DiskCase struct {
	Index  uint64   `json:"index"`
	Entry  string   `json:"entry"` // pkg:<target> | codec:<ts> | encodec:<ts> (C17)
	Info   Info     `json:"info"`
	Data   []byte   `json:"data"`
	Base   string   `json:"base,omitempty"`   // corpus member the bytes derive from
	Faults []string `json:"faults,omitempty"` // storage faults applied, in order
	// C17
	Op *Op `json:"op,omitempty"`
}

// DiskFinding is one distinct failure signature with its first example.
type DiskFinding struct {
	Sig       string   `json:"sig"`
	Class     string   `json:"class"` // panic | budget-step | budget-alloc | budget-wall | fatal | geometry ...
	PanicFn   string   `json:"panicfn,omitempty"`
	PanicKind string   `json:"panickind,omitempty"`
	PanicLoc  string   `json:"panicloc,omitempty"`
	Panic     string   `json:"panic,omitempty"`
	Stack     string   `json:"stack,omitempty"`
	Detail    string   `json:"detail,omitempty"`
	Site      uint32   `json:"site,omitempty"`
	Val       uint64   `json:"val,omitempty"`
	WallMs    float64  `json:"wallms,omitempty"`
	Case      DiskCase `json:"case"`
	// Alt holds further examples of the same signature (budget candidates: the
	// smallest and largest request seen), tried in turn by the confirmation stage.
	Alt     []DiskCase `json:"alt,omitempty"`
	AltVal  []uint64   `json:"altval,omitempty"`
	Count   uint64     `json:"count"`
	Entries []string   `json:"entries,omitempty"`
}

// DiskResult is the output of one shard.
type DiskResult struct {
	Cases       uint64             `json:"cases"`
	Enumerated  uint64             `json:"enumerated"`
	Sampled     uint64             `json:"sampled"`
	Skipped     map[string]uint64  `json:"skipped"`
	FaultCounts map[string]uint64  `json:"faultcounts"`
	EntryCounts map[string]uint64  `json:"entrycounts"`
	EntryMs     map[string]float64 `json:"entryms"`
	Outcomes    map[string]uint64  `json:"outcomes"` // ok | error | panic | sentinel-*
	Findings    []DiskFinding      `json:"findings"`
	Steps       uint64             `json:"steps"`
	DistinctIn  uint64             `json:"distinctin"` // distinct (entry, bytes) pairs by hash
	Corpus      []string           `json:"corpus"`
	Probes      map[string]uint64  `json:"probes"`
	SlowestMs   float64            `json:"slowestms"`
	Samples     []DiskCase         `json:"samples,omitempty"`
	ExplicitOne *DiskCase          `json:"explicitone,omitempty"`
	LastIndex   uint64             `json:"lastindex"`
	Done        bool               `json:"done"`
}

// ConfirmResult is what the un-instrumented confirmation child measured (C09 stage 2).
type ConfirmResult struct {
	Outcome    string  `json:"outcome"` // ok | error | panic
	Panic      string  `json:"panic,omitempty"`
	CPUSeconds float64 `json:"cpus"`
	WallS      float64 `json:"walls"`
	PeakLive   uint64  `json:"peaklive"` // largest live heap (after forced GC) seen by the sampler
	PeakHeap   uint64  `json:"peakheap"` // largest HeapAlloc seen (upper bound)
	Samples    int     `json:"samples"`
	HeapSys    uint64  `json:"heapsys"`    // heap memory obtained from the OS after the call (high-water mark)
	TotalAlloc uint64  `json:"totalalloc"` // bytes allocated during the call
}
