package spec

// Materialize returns the bytes of a raw (uncompressed) frame for the given
// frame description. Samples occupy the low BitsStored bits of an 8- or 16-bit
// little-endian container with the unused high bits zero (for signed data with
// BitsStored < BitsAllocated the harness keeps values non-negative so that the
// bits above the value are well defined; see DESIGN §5 C10).
func Materialize(in Info, f Frame) []byte {
	if f.IsLit || f.Lit != nil {
		out := make([]byte, len(f.Lit))
		copy(out, f.Lit)
		return out
	}
	n := in.W * in.H * in.SPP
	bytesPer := (in.BA + 7) / 8
	if bytesPer < 1 {
		bytesPer = 1
	}
	out := make([]byte, n*bytesPer)
	bs := in.BS
	if bs <= 0 || bs > in.BA {
		bs = in.BA
	}
	if bs > 32 {
		bs = 32
	}
	var maxv uint64 = (uint64(1) << uint(bs)) - 1
	if in.PR == 1 && bs < in.BA && bs > 1 {
		// keep signed-in-larger-container samples non-negative
		maxv = (uint64(1) << uint(bs-1)) - 1
	}
	r := NewRng(f.Seed ^ 0xF00D)
	put := func(i int, v uint64) {
		v &= (uint64(1) << uint(bs)) - 1
		if v > maxv {
			v = maxv
		}
		for b := 0; b < bytesPer; b++ {
			out[i*bytesPer+b] = byte(v >> (8 * uint(b)))
		}
	}
	spp := in.SPP
	if spp < 1 {
		spp = 1
	}
	for i := 0; i < n; i++ {
		pix := i / spp
		x, y := 0, 0
		if in.W > 0 {
			x, y = pix%in.W, pix/in.W
		}
		c := i % spp
		var v uint64
		switch f.Gen {
		case "zero":
			v = 0
		case "max":
			v = maxv
		case "const":
			v = (f.Seed*2654435761 + uint64(c)*977) % (maxv + 1)
		case "ramp":
			v = (uint64(x)*3 + uint64(y)*5 + uint64(c)*11 + f.Seed) % (maxv + 1)
		case "checker":
			if (x/2+y/2+c+int(f.Seed&1))%2 == 0 {
				v = maxv
			}
		case "sparse":
			if r.Intn(17) == 0 {
				v = r.U64() % (maxv + 1)
			} else {
				v = f.Seed % (maxv + 1)
			}
		default: // noise
			v = r.U64() % (maxv + 1)
		}
		put(i, v)
	}
	return out
}

// Gens lists the frame generators.
var Gens = []string{"noise", "const", "ramp", "checker", "sparse", "zero", "max"}
