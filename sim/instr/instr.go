// Package instr splices the verifrt hooks into a scratch copy of the repository
// under test (DESIGN §3.1 step 3). Nothing is re-printed: every insertion is a
// text splice at an AST position and stays on the line of the token it precedes
// or follows, so file:line in panics and race reports remain the repository's.
package instr

import (
	"fmt"
	"go/ast"
	"go/token"
	"go/types"
	"os"
	"path/filepath"
	"sort"
	"strings"

	"golang.org/x/tools/go/packages"
)

// Site describes one instrumentation site.
type Site struct {
	ID   uint32 `json:"id"`
	File string `json:"file"` // repository-relative
	Line int    `json:"line"`
	Kind string `json:"kind"`          // func | loop | pre | post | make
	Hot  string `json:"hot,omitempty"` // "" | r | w
	Fn   string `json:"fn,omitempty"`
	What string `json:"what,omitempty"` // the shared candidate that made it hot
}

// Table is the site table of one instrumented copy.
type Table struct {
	Module   string   `json:"module"`
	Sites    []Site   `json:"sites"` // index = ID (entry 0 unused)
	Packages []string `json:"packages"`
	// Degraded lists library constructs the serial scheduler does not control
	// (go statements, channels, select, sync imports).
	Degraded []string `json:"degraded,omitempty"`
	PkgVars  int      `json:"pkgvars"`
	MapLoops int      `json:"maploops"` // map-range loops put behind the MapKeys seam
	// SyncShimmed lists library files whose import of "sync" was redirected to the shim.
	SyncShimmed []string `json:"syncshimmed,omitempty"`
}

type edit struct {
	off  int
	text string
	seq  int
	del  int // bytes of the original removed at off (0 = pure insertion)
}

type fileCtx struct {
	path  string
	rel   string
	src   []byte
	file  *ast.File
	tf    *token.File
	edits []edit
}

type ctx struct {
	mod   string
	root  string
	tab   *Table
	pkg   *packages.Package
	fc    *fileCtx
	fn    string
	sizes types.Sizes
	seq   int
}

func (c *ctx) newSite(pos token.Pos, kind, hot, what string) uint32 {
	id := uint32(len(c.tab.Sites))
	p := c.pkg.Fset.Position(pos)
	c.tab.Sites = append(c.tab.Sites, Site{ID: id, File: c.fc.rel, Line: p.Line, Kind: kind, Hot: hot, Fn: c.fn, What: what})
	return id
}

func (c *ctx) insert(pos token.Pos, text string) {
	c.seq++
	c.fc.edits = append(c.fc.edits, edit{off: c.fc.tf.Offset(pos), text: text, seq: c.seq})
}

// skipDir reports directories that are not library code.
func skipPkg(mod, path string) bool {
	rel := strings.TrimPrefix(path, mod)
	rel = strings.TrimPrefix(rel, "/")
	if rel == "verifrt" {
		return true
	}
	for _, p := range []string{"examples", "cmd"} {
		if rel == p || strings.HasPrefix(rel, p+"/") {
			return true
		}
	}
	return false
}

// Instrument rewrites the library packages under root in place.
func Instrument(root, mod string, env []string) (*Table, error) {
	cfg := &packages.Config{
		Mode: packages.NeedName | packages.NeedFiles | packages.NeedCompiledGoFiles | packages.NeedSyntax |
			packages.NeedTypes | packages.NeedTypesInfo | packages.NeedImports | packages.NeedDeps | packages.NeedTypesSizes,
		Dir: root,
		Env: env,
	}
	pkgs, err := packages.Load(cfg, "./...")
	if err != nil {
		return nil, fmt.Errorf("packages.Load: %w", err)
	}
	tab := &Table{Module: mod, Sites: []Site{{}}}
	sort.Slice(pkgs, func(i, j int) bool { return pkgs[i].PkgPath < pkgs[j].PkgPath })
	for _, p := range pkgs {
		if skipPkg(mod, p.PkgPath) || len(p.GoFiles) == 0 {
			continue
		}
		if len(p.Errors) > 0 {
			return nil, fmt.Errorf("package %s does not type-check: %v", p.PkgPath, p.Errors[0])
		}
		tab.Packages = append(tab.Packages, p.PkgPath)
		c := &ctx{mod: mod, root: root, tab: tab, pkg: p, sizes: p.TypesSizes}
		if c.sizes == nil {
			c.sizes = types.SizesFor("gc", "amd64")
		}
		// count package-level variables (evidence only)
		for _, name := range p.Types.Scope().Names() {
			if _, ok := p.Types.Scope().Lookup(name).(*types.Var); ok {
				tab.PkgVars++
			}
		}
		for i, f := range p.Syntax {
			path := p.CompiledGoFiles[i]
			if !strings.HasSuffix(path, ".go") || !strings.HasPrefix(path, root) {
				continue
			}
			src, err := os.ReadFile(path)
			if err != nil {
				return nil, err
			}
			rel, _ := filepath.Rel(root, path)
			c.fc = &fileCtx{path: path, rel: rel, src: src, file: f, tf: p.Fset.File(f.Pos())}
			c.doFile()
			nHooks := len(c.fc.edits)
			c.shimSync(f)
			if len(c.fc.edits) == 0 {
				continue
			}
			// import on the package clause line
			if nHooks > 0 {
				c.seq++
				c.fc.edits = append(c.fc.edits, edit{off: c.fc.tf.Offset(f.Name.End()), text: `; import verifrt "` + mod + `/verifrt"`, seq: -1})
			}
			if err := c.fc.apply(); err != nil {
				return nil, err
			}
		}
	}
	return tab, nil
}

func (fc *fileCtx) apply() error {
	sort.SliceStable(fc.edits, func(i, j int) bool {
		if fc.edits[i].off != fc.edits[j].off {
			return fc.edits[i].off < fc.edits[j].off
		}
		return fc.edits[i].seq < fc.edits[j].seq
	})
	var b strings.Builder
	last := 0
	for _, e := range fc.edits {
		if e.off < last {
			return fmt.Errorf("%s: overlapping edits at offset %d", fc.rel, e.off)
		}
		b.Write(fc.src[last:e.off])
		b.WriteString(e.text)
		last = e.off + e.del
	}
	b.Write(fc.src[last:])
	return os.WriteFile(fc.path, []byte(b.String()), 0o644)
}

func (c *ctx) doFile() {
	for _, d := range c.fc.file.Decls {
		fd, ok := d.(*ast.FuncDecl)
		if !ok || fd.Body == nil {
			continue
		}
		c.fn = fd.Name.Name
		if fd.Recv != nil && len(fd.Recv.List) > 0 {
			c.fn = recvName(fd.Recv.List[0].Type) + "." + fd.Name.Name
		}
		c.doBody(fd.Body, "func")
	}
	// function literals at package level (var x = func() {...})
	for _, d := range c.fc.file.Decls {
		gd, ok := d.(*ast.GenDecl)
		if !ok {
			continue
		}
		c.fn = "init·vars"
		ast.Inspect(gd, func(n ast.Node) bool {
			if fl, ok := n.(*ast.FuncLit); ok {
				c.doBody(fl.Body, "func")
				return false
			}
			return true
		})
	}
}

func recvName(e ast.Expr) string {
	switch t := e.(type) {
	case *ast.StarExpr:
		return recvName(t.X)
	case *ast.Ident:
		return t.Name
	case *ast.IndexExpr:
		return recvName(t.X)
	case *ast.IndexListExpr:
		return recvName(t.X)
	}
	return "?"
}

// doBody instruments a block: a Step after the opening brace, then its statements.
func (c *ctx) doBody(b *ast.BlockStmt, kind string) {
	if b == nil {
		return
	}
	id := c.newSite(b.Lbrace, kind, "", "")
	c.insert(b.Lbrace+1, fmt.Sprintf("verifrt.Step(%d);", id))
	c.doList(b.List)
}

func (c *ctx) doList(list []ast.Stmt) {
	for _, s := range list {
		c.doStmt(s, true)
	}
}

// doStmt handles one statement. inList is true when s is a direct child of a
// block or case clause (the only positions where text may be spliced around it).
func (c *ctx) doStmt(s ast.Stmt, inList bool) {
	outer := s
	for {
		ls, ok := s.(*ast.LabeledStmt)
		if !ok {
			break
		}
		s = ls.Stmt
	}
	switch n := s.(type) {
	case *ast.BlockStmt:
		c.doList(n.List)
	case *ast.IfStmt:
		c.hotAround(outer, s, inList, headerExprs(n.Init, n.Cond), false)
		c.exprFuncLits(n.Init, n.Cond)
		c.doList(n.Body.List)
		if n.Else != nil {
			c.doStmt(n.Else, false)
		}
	case *ast.ForStmt:
		c.hotAround(outer, s, inList, headerExprs(n.Init, n.Cond, n.Post), false)
		c.exprFuncLits(n.Init, n.Cond, n.Post)
		c.doBody(n.Body, "loop")
	case *ast.RangeStmt:
		c.hotAround(outer, s, inList, []ast.Node{n.X}, false)
		if !c.mapRange(n) {
			c.exprFuncLits(n.X)
		}
		c.doBody(n.Body, "loop")
	case *ast.SwitchStmt:
		c.hotAround(outer, s, inList, headerExprs(n.Init, n.Tag), false)
		c.exprFuncLits(n.Init, n.Tag)
		for _, cc := range n.Body.List {
			c.doList(cc.(*ast.CaseClause).Body)
		}
	case *ast.TypeSwitchStmt:
		c.hotAround(outer, s, inList, headerExprs(n.Init, n.Assign), false)
		for _, cc := range n.Body.List {
			c.doList(cc.(*ast.CaseClause).Body)
		}
	case *ast.SelectStmt:
		c.degraded("select")
		for _, cc := range n.Body.List {
			c.doList(cc.(*ast.CommClause).Body)
		}
	case *ast.GoStmt:
		c.degraded("go statement")
		c.exprFuncLits(n.Call)
	case *ast.SendStmt:
		c.degraded("channel send")
	case *ast.AssignStmt, *ast.IncDecStmt, *ast.ExprStmt, *ast.DeclStmt, *ast.ReturnStmt, *ast.DeferStmt:
		c.simple(outer, s, inList)
	}
}

func (c *ctx) degraded(what string) {
	w := fmt.Sprintf("%s in %s (%s)", what, c.fn, c.fc.rel)
	for _, d := range c.tab.Degraded {
		if d == w {
			return
		}
	}
	c.tab.Degraded = append(c.tab.Degraded, w)
}

func headerExprs(ns ...ast.Node) []ast.Node {
	var out []ast.Node
	for _, n := range ns {
		if n == nil {
			continue
		}
		// typed nil inside interface
		switch v := n.(type) {
		case ast.Stmt:
			if v == nil {
				continue
			}
		case ast.Expr:
			if v == nil {
				continue
			}
		}
		out = append(out, n)
	}
	return out
}

// exprFuncLits instruments function literals nested in header expressions.
func (c *ctx) exprFuncLits(ns ...ast.Node) {
	for _, n := range headerExprs(ns...) {
		c.walkExpr(n)
	}
}

// walkExpr visits an expression tree (not descending into nested statement
// blocks except function literals, which are instrumented as functions) and
// rewrites make() calls.
func (c *ctx) walkExpr(n ast.Node) {
	if n == nil {
		return
	}
	ast.Inspect(n, func(x ast.Node) bool {
		switch v := x.(type) {
		case *ast.FuncLit:
			save := c.fn
			c.fn = save + "·lit"
			c.doBody(v.Body, "func")
			c.fn = save
			return false
		case *ast.CallExpr:
			c.maybeMake(v)
		case *ast.UnaryExpr:
			if v.Op == token.ARROW {
				c.degraded("channel receive")
			}
		}
		return true
	})
}

func (c *ctx) maybeMake(call *ast.CallExpr) {
	id, ok := call.Fun.(*ast.Ident)
	if !ok || id.Name != "make" || len(call.Args) < 2 {
		return
	}
	if obj := c.pkg.TypesInfo.Uses[id]; obj == nil || obj.Pkg() != nil {
		return // shadowed make
	}
	tv, ok := c.pkg.TypesInfo.Types[call.Args[0]]
	if !ok {
		return
	}
	sl, ok := tv.Type.Underlying().(*types.Slice)
	if !ok {
		if _, isChan := tv.Type.Underlying().(*types.Chan); isChan {
			c.degraded("channel")
		}
		return
	}
	esz := safeSizeof(c.sizes, sl.Elem())
	if esz <= 0 {
		return
	}
	arg := call.Args[len(call.Args)-1] // cap if present, else len
	at, ok := c.pkg.TypesInfo.Types[arg]
	if !ok {
		return
	}
	if b, ok := at.Type.Underlying().(*types.Basic); !ok || b.Info()&(types.IsInteger|types.IsUntyped) == 0 {
		return
	} else if b.Info()&types.IsUntyped != 0 && b.Info()&types.IsInteger == 0 {
		// untyped float/rune constant: int(c) is still fine if it is integral, but stay away
		return
	}
	sid := c.newSite(call.Lparen, "make", "", "")
	c.insert(arg.Pos(), fmt.Sprintf("verifrt.N(%d, %d, int(", sid, esz))
	c.insert(arg.End(), "))")
}

func safeSizeof(s types.Sizes, t types.Type) (n int64) {
	defer func() {
		if recover() != nil {
			n = 0
		}
	}()
	if _, ok := t.(*types.TypeParam); ok {
		return 0
	}
	return s.Sizeof(t)
}

// simple handles a simple statement: make() rewriting, function literals, and
// Step hooks before (hot) and after (write-hot, non-terminating).
func (c *ctx) simple(outer, s ast.Stmt, inList bool) {
	hot, what := c.classify(s)
	term := false
	switch n := s.(type) {
	case *ast.ReturnStmt:
		term = true
	case *ast.ExprStmt:
		if call, ok := n.X.(*ast.CallExpr); ok {
			if id, ok := call.Fun.(*ast.Ident); ok && id.Name == "panic" {
				term = true
			}
		}
	case *ast.DeferStmt:
		term = true // no hook after a defer statement (nothing has executed yet)
	}
	if inList && hot != "" {
		id := c.newSite(outer.Pos(), "pre", hot, what)
		c.insert(outer.Pos(), fmt.Sprintf("verifrt.Step(%d);", id))
	}
	c.walkExpr(s)
	if inList && hot == "w" && !term {
		id := c.newSite(s.End(), "post", hot, what)
		c.insert(s.End(), fmt.Sprintf(";verifrt.Step(%d)", id))
	}
}

// hotAround places a Step before a compound statement whose header mentions a
// shared candidate.
func (c *ctx) hotAround(outer, s ast.Stmt, inList bool, header []ast.Node, _ bool) {
	if !inList {
		return
	}
	hot, what := "", ""
	for _, h := range header {
		hh, w := c.classify(h)
		if hh == "w" || (hh == "r" && hot == "") {
			hot, what = hh, w
		}
	}
	if hot != "" {
		id := c.newSite(outer.Pos(), "pre", hot, what)
		c.insert(outer.Pos(), fmt.Sprintf("verifrt.Step(%d);", id))
	}
}

// ---- hotness ----------------------------------------------------------------

// candidate reports whether e (an identifier or selector) denotes a shared
// candidate: a package-level variable of a repository package, or a field of a
// value whose type implements codec.Codec or codec.Parameters.
func (c *ctx) candidate(e ast.Expr) (string, bool) {
	switch v := e.(type) {
	case *ast.Ident:
		obj := c.pkg.TypesInfo.Uses[v]
		if obj == nil {
			obj = c.pkg.TypesInfo.Defs[v]
		}
		if vr, ok := obj.(*types.Var); ok && vr.Pkg() != nil && vr.Parent() == vr.Pkg().Scope() &&
			strings.HasPrefix(vr.Pkg().Path(), c.mod) {
			return vr.Pkg().Name() + "." + vr.Name(), true
		}
	case *ast.SelectorExpr:
		if sel, ok := c.pkg.TypesInfo.Selections[v]; ok {
			if sel.Kind() == types.FieldVal && sharedType(sel.Recv()) {
				return typeName(sel.Recv()) + "." + v.Sel.Name, true
			}
			return "", false
		}
		// qualified identifier pkg.Var
		return c.candidate(v.Sel)
	}
	return "", false
}

func typeName(t types.Type) string {
	if p, ok := t.(*types.Pointer); ok {
		t = p.Elem()
	}
	if n, ok := t.(*types.Named); ok {
		return n.Obj().Name()
	}
	return t.String()
}

// sharedType: the (pointer to) named type has Encode+Decode+TransferSyntax
// (registry-shared codec instance) or GetParameter+SetParameter (caller-shared
// parameters object).
func sharedType(t types.Type) bool {
	if p, ok := t.(*types.Pointer); ok {
		t = p.Elem()
	}
	n, ok := t.(*types.Named)
	if !ok {
		if _, isIface := t.Underlying().(*types.Interface); !isIface {
			return false
		}
	}
	var ms *types.MethodSet
	if ok {
		ms = types.NewMethodSet(types.NewPointer(n))
	} else {
		ms = types.NewMethodSet(t)
	}
	has := func(name string) bool {
		for i := 0; i < ms.Len(); i++ {
			if ms.At(i).Obj().Name() == name {
				return true
			}
		}
		return false
	}
	return (has("Encode") && has("Decode") && has("TransferSyntax")) || (has("GetParameter") && has("SetParameter"))
}

// root strips index, slice, star, paren and plain field selections down to the
// expression that names the storage.
func (c *ctx) rootOf(e ast.Expr) ast.Expr {
	for {
		switch v := e.(type) {
		case *ast.ParenExpr:
			e = v.X
		case *ast.IndexExpr:
			e = v.X
		case *ast.SliceExpr:
			e = v.X
		case *ast.StarExpr:
			e = v.X
		case *ast.SelectorExpr:
			if _, ok := c.candidate(v); ok {
				return v
			}
			if sel, ok := c.pkg.TypesInfo.Selections[v]; ok && sel.Kind() == types.FieldVal {
				e = v.X
				continue
			}
			return e
		default:
			return e
		}
	}
}

func isRefType(t types.Type) bool {
	switch t.Underlying().(type) {
	case *types.Pointer, *types.Slice, *types.Map, *types.Interface, *types.Signature:
		return true
	}
	return false
}

// readOnlyMethods of shared types that do not make a call write-hot.
var readOnlyMethods = map[string]bool{
	"GetParameter": true, "Name": true, "TransferSyntax": true, "GetDefaultParameters": true,
}

// classify returns "w" if the node writes (or hands out a reference to) a
// shared candidate, "r" if it merely mentions one, "" otherwise. Nested blocks
// and function literals are not descended into.
func (c *ctx) classify(n ast.Node) (hot, what string) {
	set := func(h, w string) {
		if h == "w" && hot != "w" {
			hot, what = h, w
		} else if hot == "" {
			hot, what = h, w
		}
	}
	checkLHS := func(e ast.Expr) {
		r := c.rootOf(e)
		if w, ok := c.candidate(r); ok {
			set("w", w)
		}
	}
	ast.Inspect(n, func(x ast.Node) bool {
		switch v := x.(type) {
		case *ast.FuncLit, *ast.BlockStmt:
			return false
		case *ast.AssignStmt:
			for _, l := range v.Lhs {
				checkLHS(l)
			}
		case *ast.IncDecStmt:
			checkLHS(v.X)
		case *ast.UnaryExpr:
			if v.Op == token.AND {
				checkLHS(v.X)
			}
		case *ast.CallExpr:
			// method call on a shared value
			if se, ok := v.Fun.(*ast.SelectorExpr); ok {
				if sel, ok := c.pkg.TypesInfo.Selections[se]; ok && sel.Kind() == types.MethodVal && sharedType(sel.Recv()) {
					if readOnlyMethods[se.Sel.Name] {
						set("r", typeName(sel.Recv())+"."+se.Sel.Name+"()")
					} else {
						set("w", typeName(sel.Recv())+"."+se.Sel.Name+"()")
					}
				}
			}
			// a method call on a package-level variable (or on a field of a shared value):
			// locks, pools, atomics, caches - the instrumenter cannot know whether it
			// mutates, and the instant after Unlock/Put/Store is exactly where an
			// atomicity window opens, so these are write-hot (a "post" site follows them)
			if se, ok := v.Fun.(*ast.SelectorExpr); ok {
				if sel, ok := c.pkg.TypesInfo.Selections[se]; ok && sel.Kind() == types.MethodVal {
					if w, ok := c.candidate(c.rootOf(se.X)); ok && !readOnlyMethods[se.Sel.Name] {
						set("w", w+"."+se.Sel.Name+"()")
					}
				}
			}
			// any operation of package sync / sync/atomic, whatever it is rooted at: the instants
			// around Lock/Unlock/Store/Put are where atomicity windows open and close
			if se, ok := v.Fun.(*ast.SelectorExpr); ok {
				if sel, ok := c.pkg.TypesInfo.Selections[se]; ok && sel.Kind() == types.MethodVal {
					if fn, ok := sel.Obj().(*types.Func); ok && fn.Pkg() != nil && (fn.Pkg().Path() == "sync" || fn.Pkg().Path() == "sync/atomic") {
						set("w", "sync."+se.Sel.Name+"()")
					}
				} else if id, ok := se.X.(*ast.Ident); ok {
					if pn, ok := c.pkg.TypesInfo.Uses[id].(*types.PkgName); ok && (pn.Imported().Path() == "sync/atomic" || pn.Imported().Path() == "sync") {
						set("w", pn.Imported().Path()+"."+se.Sel.Name+"()")
					}
				}
			}
			// a reference to a candidate handed to any call
			for _, a := range v.Args {
				r := c.rootOf(a)
				if w, ok := c.candidate(r); ok {
					if tv, ok := c.pkg.TypesInfo.Types[a]; ok && isRefType(tv.Type) {
						set("w", w)
					}
				}
			}
		case *ast.Ident:
			if w, ok := c.candidate(v); ok {
				set("r", w)
			}
		case *ast.SelectorExpr:
			if w, ok := c.candidate(v); ok {
				set("r", w)
			}
		}
		return true
	})
	return
}

// ---- map iteration seam -------------------------------------------------------

// pureExpr: evaluating it twice is the same as evaluating it once.
func pureExpr(e ast.Expr) bool {
	switch v := e.(type) {
	case *ast.Ident, *ast.BasicLit:
		return true
	case *ast.SelectorExpr:
		return pureExpr(v.X)
	case *ast.IndexExpr:
		return pureExpr(v.X) && pureExpr(v.Index)
	case *ast.ParenExpr:
		return pureExpr(v.X)
	case *ast.StarExpr:
		return pureExpr(v.X)
	}
	return false
}

// mapRange rewrites `for k, v := range m {` over a map with an ordered key type
// into `for _, vk := range verifrt.MapKeys(m) { k := vk; v := m[vk];`, which puts
// the one source of nondeterminism inside the library (hash-map iteration
// order) behind a seam: native random order by default, sorted when the
// simulator asks for exactly repeatable schedules. Any order it produces is an
// order the original loop could have taken. Loops whose body deletes from or
// assigns into the ranged map, or whose map expression is not side-effect
// free, are left alone.
func (c *ctx) mapRange(n *ast.RangeStmt) bool {
	tv, ok := c.pkg.TypesInfo.Types[n.X]
	if !ok {
		return false
	}
	mt, ok := tv.Type.Underlying().(*types.Map)
	if !ok {
		return false
	}
	if b, ok := mt.Key().Underlying().(*types.Basic); !ok || b.Info()&types.IsOrdered == 0 {
		return false
	}
	if !pureExpr(n.X) {
		return false
	}
	xs := c.text(n.X)
	mutates := false
	ast.Inspect(n.Body, func(x ast.Node) bool {
		switch v := x.(type) {
		case *ast.CallExpr:
			if id, ok := v.Fun.(*ast.Ident); ok && (id.Name == "delete" || id.Name == "clear") {
				mutates = true
			}
		case *ast.AssignStmt:
			for _, l := range v.Lhs {
				if ix, ok := l.(*ast.IndexExpr); ok && c.text(ix.X) == xs {
					mutates = true
				}
			}
		}
		return !mutates
	})
	if mutates {
		return false
	}
	id := len(c.tab.Sites) // unique suffix
	vk := fmt.Sprintf("verifK%d", id)
	var pre strings.Builder
	fmt.Fprintf(&pre, "for _, %s := range verifrt.MapKeys(%s) {", vk, xs)
	asg := ":="
	if n.Tok == token.ASSIGN {
		asg = "="
	}
	isBlank := func(e ast.Expr) bool {
		if e == nil {
			return true
		}
		idn, ok := e.(*ast.Ident)
		return ok && idn.Name == "_"
	}
	if !isBlank(n.Key) {
		fmt.Fprintf(&pre, "%s %s %s;", c.text(n.Key), asg, vk)
	}
	if !isBlank(n.Value) {
		fmt.Fprintf(&pre, "%s %s %s[%s];", c.text(n.Value), asg, xs, vk)
	}
	c.seq++
	off := c.fc.tf.Offset(n.For)
	end := c.fc.tf.Offset(n.Body.Lbrace) + 1
	c.fc.edits = append(c.fc.edits, edit{off: off, text: pre.String(), seq: c.seq, del: end - off})
	c.tab.MapLoops++
	return true
}

func (c *ctx) text(e ast.Node) string {
	return string(c.fc.src[c.fc.tf.Offset(e.Pos()):c.fc.tf.Offset(e.End())])
}

// shimSync redirects the file's import of "sync" to the vsync shim (same
// identifier, wrapped real primitives) so that a client blocked on a lock held by
// a parked client yields instead of hanging the serialised process.
func (c *ctx) shimSync(f *ast.File) {
	for _, im := range f.Imports {
		if im.Path == nil || im.Path.Value != `"sync"` {
			continue
		}
		name := ""
		if im.Name == nil {
			name = "sync "
		} else if im.Name.Name == "_" || im.Name.Name == "." {
			continue
		}
		off := c.fc.tf.Offset(im.Path.Pos())
		c.seq++
		c.fc.edits = append(c.fc.edits, edit{off: off, text: name + `"` + c.mod + `/verifrt/vsync"`, seq: c.seq, del: len(im.Path.Value)})
		c.tab.SyncShimmed = append(c.tab.SyncShimmed, c.fc.rel)
	}
}
